// Reference model of the discrete operator: a direct, sequential, uncached implementation of the documented 9-point
// stencil (7-point across-origin closure, identity Dirichlet rows), assembling an explicit sparse matrix in the
// model's OWN node numbering (row-major: i_r * ntheta + i_theta).  Uses only the public input-function interfaces
// and grid.radius(i) / grid.theta(j).   DESIGN.md section 3.2.
#pragma once
#include <vector>
#include <cstddef>

class PolarGrid;
class DomainGeometry;
class DensityProfileCoefficients;
class BoundaryConditions;
class SourceTerm;
class ExactSolution;

namespace model {

struct SparseRow {
    std::vector<int> col;
    std::vector<double> val;
    std::vector<double> aval; // sum of the absolute values of the elementary contributions (for rounding bounds: the
                              // library may add the contributions one by one, so cancellation inside an entry counts)
};

struct RefOperator {
    int nr = 0, ntheta = 0, n = 0;
    bool dirbc_interior = false;
    std::vector<double> r, theta; // theta has ntheta entries (no 2*pi duplicate)
    std::vector<double> h; // h[i] = r[i+1]-r[i], size nr-1
    std::vector<double> k; // k[j] = theta[j+1]-theta[j] (periodic), size ntheta
    std::vector<double> arr, att, art, detDF, alpha, beta; // per node (model numbering) / per radius
    std::vector<SparseRow> rows; // full matrix including identity rows on Dirichlet nodes
    std::vector<char> dirichlet; // per node
    std::vector<int> to_grid; // model index -> library index (grid.index(i,j))
    std::vector<int> from_grid; // library index -> model index

    // Build from public objects.
    void build(const PolarGrid& grid, const DomainGeometry& geo, const DensityProfileCoefficients& coeff,
               bool DirBC_Interior);

    inline int id(int i, int j) const { return i * ntheta + ((j % ntheta) + ntheta) % ntheta; }

    // y = A x   (model numbering)
    void apply(const std::vector<double>& x, std::vector<double>& y) const;
    // y = |A| |x|
    void apply_abs(const std::vector<double>& x, std::vector<double>& y) const;
    // discretised right-hand side and boundary data (model numbering)
    void rhs(const SourceTerm& f, const BoundaryConditions& bc, std::vector<double>& out) const;
    // nodal values of the exact solution
    void exact(const ExactSolution& u, std::vector<double>& out) const;

    // conversions between numberings
    template <class V>
    void to_model(const V& lib, std::vector<double>& out) const
    {
        out.resize(n);
        for (int m = 0; m < n; m++)
            out[m] = lib[to_grid[m]];
    }
    template <class V>
    void to_lib(const std::vector<double>& mod, V& lib) const
    {
        for (int m = 0; m < n; m++)
            lib[to_grid[m]] = mod[m];
    }

    // Solve A x = b with banded LU, partial pivoting, long double.  Returns false if singular.
    bool solve(const std::vector<double>& b, std::vector<double>& x) const;
    // e^T A e over the non-Dirichlet unknowns (e is zeroed on Dirichlet nodes first)
    double energy(const std::vector<double>& e) const;
    // max |A_ij - A_ji| over pairs of non-Dirichlet unknowns, relative to max |A_ij|
    double asymmetry() const;
};

// Generic banded LU with partial pivoting (long double).  rows: sparse rows with column indices in [0,n).
struct BandedLU {
    int n = 0, kl = 0, ku = 0, ld = 0;
    std::vector<long double> ab; // LAPACK-style band storage with extra kl super-diagonals
    std::vector<int> piv;
    std::vector<long double> rscale; // row equilibration (powers of two): partial pivoting is not invariant under row scaling
    bool ok = false;
    bool factor(const std::vector<SparseRow>& rows);
    void solve(std::vector<long double>& b) const;
};

// Dense helpers for the small systems of C14/C15 (long double Gaussian elimination with partial pivoting).
bool dense_solve(std::vector<long double> A, std::vector<long double> b, int n, std::vector<long double>& x);

} // namespace model
