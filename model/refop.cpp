#include "refop.h"
#include <algorithm>
#include <cmath>
#include <stdexcept>

#include "PolarGrid/polargrid.h"
#include "InputFunctions/boundaryConditions.h"
#include "InputFunctions/densityProfileCoefficients.h"
#include "InputFunctions/domainGeometry.h"
#include "InputFunctions/exactSolution.h"
#include "InputFunctions/sourceTerm.h"

namespace model {

void RefOperator::build(const PolarGrid& grid, const DomainGeometry& geo, const DensityProfileCoefficients& coeff,
                        bool DirBC_Interior)
{
    nr             = grid.nr();
    ntheta         = grid.ntheta();
    n              = nr * ntheta;
    dirbc_interior = DirBC_Interior;
    r.resize(nr);
    theta.resize(ntheta);
    for (int i = 0; i < nr; i++)
        r[i] = grid.radius(i);
    for (int j = 0; j < ntheta; j++)
        theta[j] = grid.theta(j);
    h.resize(nr - 1);
    for (int i = 0; i + 1 < nr; i++)
        h[i] = r[i + 1] - r[i];
    k.resize(ntheta);
    for (int j = 0; j < ntheta; j++)
        k[j] = (j + 1 < ntheta) ? theta[j + 1] - theta[j] : 2.0 * M_PI - theta[j];
    alpha.resize(nr);
    beta.resize(nr);
    for (int i = 0; i < nr; i++) {
        alpha[i] = coeff.alpha(r[i]);
        beta[i]  = coeff.beta(r[i]);
    }
    arr.resize(n);
    att.resize(n);
    art.resize(n);
    detDF.resize(n);
    to_grid.resize(n);
    from_grid.assign(n, -1);
    for (int i = 0; i < nr; i++)
        for (int j = 0; j < ntheta; j++) {
            const int m    = id(i, j);
            const double s = std::sin(theta[j]), c = std::cos(theta[j]);
            const double Jrr = geo.dFx_dr(r[i], theta[j], s, c);
            const double Jtr = geo.dFy_dr(r[i], theta[j], s, c);
            const double Jrt = geo.dFx_dt(r[i], theta[j], s, c);
            const double Jtt = geo.dFy_dt(r[i], theta[j], s, c);
            const double det = Jrr * Jtt - Jrt * Jtr;
            detDF[m]         = det;
            // 0.5 * alpha * DF^{-1} DF^{-T} |det DF| = [arr, art/2; art/2, att]
            arr[m] = 0.5 * alpha[i] * (Jtt * Jtt + Jrt * Jrt) / std::fabs(det);
            att[m] = 0.5 * alpha[i] * (Jtr * Jtr + Jrr * Jrr) / std::fabs(det);
            art[m] = alpha[i] * (-Jtt * Jtr - Jrt * Jrr) / std::fabs(det);
            const int g = grid.index(i, j);
            to_grid[m]  = g;
            if (g < 0 || g >= n || from_grid[g] != -1)
                throw std::runtime_error("RefOperator: grid.index is not a bijection");
            from_grid[g] = m;
        }
    rows.assign(n, SparseRow());
    dirichlet.assign(n, 0);
    auto add = [&](SparseRow& row, int col, double v) {
        for (size_t q = 0; q < row.col.size(); q++)
            if (row.col[q] == col) {
                row.val[q] += v;
                row.aval[q] += std::fabs(v);
                return;
            }
        row.col.push_back(col);
        row.val.push_back(v);
        row.aval.push_back(std::fabs(v));
    };
    for (int i = 0; i < nr; i++)
        for (int j = 0; j < ntheta; j++) {
            const int c    = id(i, j);
            SparseRow& row = rows[c];
            if (i == nr - 1 || (i == 0 && DirBC_Interior)) {
                dirichlet[c] = 1;
                add(row, c, 1.0);
                continue;
            }
            const double k1 = k[((j - 1) % ntheta + ntheta) % ntheta];
            const double k2 = k[j];
            const double h2 = h[i];
            const int b = id(i, j - 1), t = id(i, j + 1);
            const int rgt = id(i + 1, j), br = id(i + 1, j - 1), tr = id(i + 1, j + 1);
            double h1;
            int l, bl = -1, tl = -1;
            if (i == 0) {
                h1 = 2.0 * r[0];
                l  = id(0, j + ntheta / 2);
            }
            else {
                h1 = h[i - 1];
                l  = id(i - 1, j);
                bl = id(i - 1, j - 1);
                tl = id(i - 1, j + 1);
            }
            const double c1 = 0.5 * (k1 + k2) / h1;
            const double c2 = 0.5 * (k1 + k2) / h2;
            const double c3 = 0.5 * (h1 + h2) / k1;
            const double c4 = 0.5 * (h1 + h2) / k2;
            // reaction term
            add(row, c, 0.25 * (h1 + h2) * (k1 + k2) * beta[i] * std::fabs(detDF[c]));
            // - c1 (arr_c + arr_l) (x_l - x_c)   etc.
            const double wl = c1 * (arr[c] + arr[l]);
            const double wr = c2 * (arr[c] + arr[rgt]);
            const double wb = c3 * (att[c] + att[b]);
            const double wt = c4 * (att[c] + att[t]);
            add(row, l, -wl);
            add(row, rgt, -wr);
            add(row, b, -wb);
            add(row, t, -wt);
            add(row, c, wl + wr + wb + wt);
            if (i == 0) {
                // Across the origin the edge (0,j)-(0,j+ntheta/2) is seen with the angular spacings at j by one node
                // and at j+ntheta/2 by the other.  They are equal only up to the rounding of the stored angles
                // (|d theta| <= 4 eps * 2 pi each), so the edge coefficient carries a relative uncertainty
                // u = 4 * (4 eps 2 pi) / (k1 + k2) whichever node's spacing an implementation uses.  It is folded into
                // the termwise magnitudes (which every rounding bound multiplies by >= 48 eps).
                const double u      = 4.0 * (4.0 * 2.220446049250313e-16 * 2.0 * M_PI) / (k1 + k2);
                const double weight = wl * u / (48.0 * 2.220446049250313e-16);
                for (size_t q = 0; q < row.col.size(); q++)
                    if (row.col[q] == l || row.col[q] == c)
                        row.aval[q] += weight;
            }
            // mixed derivative terms
            if (i > 0) {
                add(row, bl, -0.25 * art[l]);
                add(row, bl, -0.25 * art[b]);
                add(row, tl, +0.25 * art[l]);
                add(row, tl, +0.25 * art[t]);
            }
            add(row, br, +0.25 * art[rgt]);
            add(row, br, +0.25 * art[b]);
            add(row, tr, -0.25 * art[rgt]);
            add(row, tr, -0.25 * art[t]);
        }
}

void RefOperator::apply(const std::vector<double>& x, std::vector<double>& y) const
{
    y.assign(n, 0.0);
    for (int m = 0; m < n; m++) {
        long double s        = 0;
        const SparseRow& row = rows[m];
        for (size_t q = 0; q < row.col.size(); q++)
            s += (long double)row.val[q] * (long double)x[row.col[q]];
        y[m] = (double)s;
    }
}

void RefOperator::apply_abs(const std::vector<double>& x, std::vector<double>& y) const
{
    y.assign(n, 0.0);
    for (int m = 0; m < n; m++) {
        long double s        = 0;
        const SparseRow& row = rows[m];
        for (size_t q = 0; q < row.col.size(); q++)
            s += (long double)row.aval[q] * std::fabs((long double)x[row.col[q]]);
        y[m] = (double)s;
    }
}

void RefOperator::rhs(const SourceTerm& f, const BoundaryConditions& bc, std::vector<double>& out) const
{
    out.assign(n, 0.0);
    for (int i = 0; i < nr; i++)
        for (int j = 0; j < ntheta; j++) {
            const int c    = id(i, j);
            const double s = std::sin(theta[j]), co = std::cos(theta[j]);
            if (i == nr - 1) {
                out[c] = bc.u_D(r[i], theta[j], s, co);
            }
            else if (i == 0 && dirbc_interior) {
                out[c] = bc.u_D_Interior(r[i], theta[j], s, co);
            }
            else {
                const double k1 = k[((j - 1) % ntheta + ntheta) % ntheta];
                const double k2 = k[j];
                const double h1 = (i == 0) ? 2.0 * r[0] : h[i - 1];
                const double h2 = h[i];
                out[c] = 0.25 * (h1 + h2) * (k1 + k2) * std::fabs(detDF[c]) * f.rhs_f(r[i], theta[j], s, co);
            }
        }
}

void RefOperator::exact(const ExactSolution& u, std::vector<double>& out) const
{
    out.assign(n, 0.0);
    for (int i = 0; i < nr; i++)
        for (int j = 0; j < ntheta; j++)
            out[id(i, j)] = u.exact_solution(r[i], theta[j], std::sin(theta[j]), std::cos(theta[j]));
}

bool RefOperator::solve(const std::vector<double>& b, std::vector<double>& x) const
{
    BandedLU lu;
    if (!lu.factor(rows))
        return false;
    std::vector<long double> v(b.begin(), b.end());
    lu.solve(v);
    x.resize(n);
    for (int m = 0; m < n; m++)
        x[m] = (double)v[m];
    return true;
}

double RefOperator::energy(const std::vector<double>& e) const
{
    long double s = 0;
    for (int m = 0; m < n; m++) {
        if (dirichlet[m])
            continue;
        const SparseRow& row = rows[m];
        long double ax       = 0;
        for (size_t q = 0; q < row.col.size(); q++)
            if (!dirichlet[row.col[q]])
                ax += (long double)row.val[q] * (long double)e[row.col[q]];
        s += ax * (long double)e[m];
    }
    return (double)s;
}

double RefOperator::asymmetry() const
{
    double worst = 0, scale = 0;
    for (int m = 0; m < n; m++) {
        if (dirichlet[m])
            continue;
        const SparseRow& row = rows[m];
        for (size_t q = 0; q < row.col.size(); q++) {
            int c = row.col[q];
            scale = std::max(scale, std::fabs(row.val[q]));
            if (dirichlet[c])
                continue;
            double back         = 0;
            const SparseRow& r2 = rows[c];
            for (size_t p = 0; p < r2.col.size(); p++)
                if (r2.col[p] == m)
                    back = r2.val[p];
            worst = std::max(worst, std::fabs(back - row.val[q]));
        }
    }
    return scale > 0 ? worst / scale : 0;
}

/* ---------------------------------------------------------------- */
bool BandedLU::factor(const std::vector<SparseRow>& rows)
{
    n  = (int)rows.size();
    kl = ku = 0;
    for (int i = 0; i < n; i++)
        for (int c : rows[i].col) {
            kl = std::max(kl, i - c);
            ku = std::max(ku, c - i);
        }
    ld = 2 * kl + ku + 1;
    ab.assign((size_t)ld * n, 0.0L);
    auto A = [&](int i, int j) -> long double& { return ab[(size_t)j * ld + (kl + ku + i - j)]; };
    rscale.assign(n, 1.0L);
    for (int i = 0; i < n; i++) {
        double mx = 0;
        for (double v : rows[i].val)
            mx = std::max(mx, std::fabs(v));
        int e = 0;
        if (mx > 0 && std::isfinite(mx))
            std::frexp(mx, &e);
        rscale[i] = std::ldexp(1.0L, -e); // identity rows of Dirichlet nodes next to rows of size 1e12 (other units)
        for (size_t q = 0; q < rows[i].col.size(); q++)
            A(i, rows[i].col[q]) += (long double)rows[i].val[q] * rscale[i];
    }
    piv.assign(n, 0);
    for (int j = 0; j < n; j++) {
        int last = std::min(n - 1, j + kl);
        int p    = j;
        long double best = std::fabs(A(j, j));
        for (int i = j + 1; i <= last; i++)
            if (std::fabs(A(i, j)) > best) {
                best = std::fabs(A(i, j));
                p    = i;
            }
        piv[j] = p;
        if (best == 0.0L) {
            ok = false;
            return false;
        }
        int cmax = std::min(n - 1, j + ku + kl);
        if (p != j)
            for (int c = j; c <= cmax; c++)
                std::swap(A(j, c), A(p, c));
        for (int i = j + 1; i <= last; i++) {
            long double m = A(i, j) / A(j, j);
            A(i, j)       = m;
            if (m != 0.0L)
                for (int c = j + 1; c <= cmax; c++)
                    A(i, c) -= m * A(j, c);
        }
    }
    ok = true;
    return true;
}

void BandedLU::solve(std::vector<long double>& b) const
{
    auto A = [&](int i, int j) -> long double { return ab[(size_t)j * ld + (kl + ku + i - j)]; };
    for (int i = 0; i < n; i++)
        b[i] *= rscale[i];
    for (int j = 0; j < n; j++) {
        if (piv[j] != j)
            std::swap(b[j], b[piv[j]]);
        int last = std::min(n - 1, j + kl);
        for (int i = j + 1; i <= last; i++)
            b[i] -= A(i, j) * b[j];
    }
    for (int j = n - 1; j >= 0; j--) {
        b[j] /= A(j, j);
        int first = std::max(0, j - ku - kl);
        for (int i = first; i < j; i++)
            b[i] -= A(i, j) * b[j];
    }
}

bool dense_solve(std::vector<long double> A, std::vector<long double> b, int n, std::vector<long double>& x)
{
    for (int j = 0; j < n; j++) {
        int p = j;
        for (int i = j + 1; i < n; i++)
            if (std::fabs(A[(size_t)i * n + j]) > std::fabs(A[(size_t)p * n + j]))
                p = i;
        if (A[(size_t)p * n + j] == 0.0L)
            return false;
        if (p != j) {
            for (int c = 0; c < n; c++)
                std::swap(A[(size_t)j * n + c], A[(size_t)p * n + c]);
            std::swap(b[j], b[p]);
        }
        for (int i = j + 1; i < n; i++) {
            long double m = A[(size_t)i * n + j] / A[(size_t)j * n + j];
            if (m == 0.0L)
                continue;
            for (int c = j; c < n; c++)
                A[(size_t)i * n + c] -= m * A[(size_t)j * n + c];
            b[i] -= m * b[j];
        }
    }
    x.assign(n, 0.0L);
    for (int i = n - 1; i >= 0; i--) {
        long double s = b[i];
        for (int c = i + 1; c < n; c++)
            s -= A[(size_t)i * n + c] * x[c];
        x[i] = s / A[(size_t)i * n + i];
    }
    return true;
}

} // namespace model
