// C20 -- every option combination is either rejected cleanly or runs without UB, and every statistic is a
// well-defined function of the solve.  (a) API option vectors, (b) the command-line program driven in-process.
// asan flavour: memory safety / assertions / UB.  fast flavour: memory-poison differential (two runs of the same plan
// under different heap/stack poison patterns must produce bit-identical observables).
#include "harness/solver_cfg.h"

using namespace hs;

int gmgpolar_cli_main(int argc, char* argv[]); // src/main.cpp compiled with -Dmain=gmgpolar_cli_main

#include <csetjmp>
namespace hs {
// exit() is declared nothrow, so an exception cannot travel through its callers: the command-line parser's exit()
// is turned into a longjmp back into the harness (the abandoned frames only leak memory).
bool g_cli_active = false;
jmp_buf g_cli_jmp;
int g_cli_code = 0;
} // namespace hs

extern "C" {
void __real_exit(int) __attribute__((noreturn));
void __wrap_exit(int code)
{
    if (hs::g_cli_active) {
        hs::g_cli_active = false;
        hs::g_cli_code   = code;
        longjmp(hs::g_cli_jmp, 1);
    }
    __real_exit(code);
}
}

namespace {

struct Obs {
    std::string outcome; // "exception:<what>" / "completed" / "exit:<n>"
    int its = -1;
    double rho = 0;
    std::vector<double> norms; // residual history of the (last) solve
    double my_e2 = -1, my_einf = -1;
    bool has_err = false;
    double e2 = 0, einf = 0;
    uint64_t sol_hash = 0;
    bool finite = true;
    int nr = 0, nt = 0;
};

Value gen_api(uint64_t seed, const std::string& tier)
{
    Rng g(sim::mix(seed, 0xC20));
    SolverOpts o = gen_opts(g, 65L * 64L, false);
    // the wide option space
    o.nr_exp     = g.range(2, 5);
    o.ntheta_exp = g.chance(0.4) ? -1 : g.range(2, 6);
    o.aniso      = g.chance(0.3) ? g.range(1, 4) : 0;
    o.divideBy2  = g.chance(0.3) ? g.range(1, 2) : 0;
    if (g.chance(0.3))
        o.prob.alpha_jump = g.chance(0.5) ? 0.0 : g.uniform(0, 1.5) * o.prob.Rmax; // incl. the CLI default 0
    o.pre        = g.range(0, 3);
    o.post       = g.range(0, 3);
    o.max_levels = g.chance(0.4) ? -1 : g.range(1, 6);
    if (o.aniso >= 3 && g.chance(0.5))
        o.nr_exp = 5; // deep hierarchies of anisotropic grids reach levels with an even number of radii
    bound_cost(o, 15000, 2600); // (nr_exp 5 with anisotropic factor 4 is 81x128: hierarchies with an even coarse nr)
    o.abs_tol    = g.chance(0.3) ? -1.0 : (g.chance(0.5) ? 1e-8 : 1e-4);
    o.rel_tol    = g.chance(0.3) ? -1.0 : (g.chance(0.5) ? 1e-8 : 1e-4);
    o.max_iterations = g.chance(0.15) ? 0 : (g.chance(0.3) ? g.range(1, 4) : 40);
    o.threads    = g.chance(0.3) ? 1 : g.range(2, 12);
    o.reduction  = g.chance(0.2) ? g.uniform(0.05, 1.0) : (g.chance(0.5) ? 1.0 : 0.5);
    if (g.chance(0.1)) {
        o.stencil     = 0;
        o.cache_coeff = g.chance(0.5);
        o.cache_geo   = !o.cache_coeff; // take without caches: must be rejected
    }
    o.with_exact = g.chance(0.6);
    o.verbose    = g.range(0, 1);
    Value p      = Value::object();
    p["opts"]    = o.to_json();
    // invalid enum integers through the setters
    p["bad_enum"] = g.chance(0.12) ? g.range(0, 4) : -1; // which enum gets an out-of-range integer
    p["bad_val"]  = g.chance(0.5) ? g.range(3, 9) : -g.range(1, 5);
    p["second_solve"] = g.chance(0.3);
    p["sim"]      = gen_sim(g);
    p["poison_a"] = 0;
    p["poison_b"] = g.range(1, 3);
    return p;
}

uint64_t poison_pattern(int k)
{
    switch (k) {
    case 0: return 0x0000000000000000ull;
    case 1: return 0xFFFFFFFFFFFFFFFFull; // NaN as double, -1 as int
    case 2: return 0x7FF4000000000001ull; // signalling NaN
    default: return 0x7FE1234567890ABCull; // huge finite
    }
}

Obs run_api_once(const Value& plan, const SolverOpts& o, int poison, Result& r)
{
    Obs ob;
    sim::AllocFaults& af = sim::alloc_faults();
    if (!is_asan()) {
        af.poison  = true;
        af.pattern = poison_pattern(poison);
    }
    Problem keep;
    std::unique_ptr<GMGPolar> s;
    try {
        s = new_solver(o, keep);
        int be = (int)plan.at("bad_enum").as_int(-1), bv = (int)plan.at("bad_val").as_int(7);
        switch (be) {
        case 0: s->extrapolation((ExtrapolationType)bv); break;
        case 1: s->multigridCycle((MultigridCycleType)bv); break;
        case 2: s->residualNormType((ResidualNormType)bv); break;
        case 3: s->stencilDistributionMethod((StencilDistributionMethod)bv); break;
        case 4: s->FMG_cycle((MultigridCycleType)bv); break;
        default: break;
        }
        CoutCapture cap;
        SimRun sr(plan.at("sim"), r);
        sim::poison_stack(poison_pattern(poison), 96 * 1024);
        s->setup();
        sim::poison_stack(poison_pattern(poison), 96 * 1024);
        s->solve();
        if (plan.at("second_solve").as_bool(false)) {
            sim::poison_stack(poison_pattern(poison), 96 * 1024);
            s->solve();
        }
        ob.outcome = "completed";
        ob.its     = s->numberOfIterations();
        ob.rho     = s->meanResidualReductionFactor();
        ob.norms   = GMGPolarVerifAccess::residual_norms(*s);
        auto a = s->exactErrorWeightedEuclidean();
        auto b = s->exactErrorInfinity();
        if (a.has_value() && b.has_value()) {
            ob.has_err = true;
            ob.e2      = *a;
            ob.einf    = *b;
        }
        if (ob.has_err && keep.exact) {
            // the harness's own evaluation of the returned solution against the exact one
            const PolarGrid& g = s->grid();
            long double s2     = 0;
            double mx          = 0;
            for (int i = 0; i < g.nr(); i++)
                for (int j = 0; j < g.ntheta(); j++) {
                    double ue = keep.exact->exact_solution(g.radius(i), g.theta(j), std::sin(g.theta(j)), std::cos(g.theta(j)));
                    double d  = s->solution()[g.index(i, j)] - ue;
                    s2 += (long double)d * d;
                    mx = std::max(mx, std::fabs(d));
                }
            ob.my_e2   = std::sqrt((double)s2) / std::sqrt((double)g.numberOfNodes());
            ob.my_einf = mx;
        }
        ob.sol_hash = hash_vec(s->solution());
        ob.finite   = all_finite(s->solution());
        ob.nr       = s->grid().nr();
        ob.nt       = s->grid().ntheta();
        // the other public accessors must be callable
        (void)s->grid().numberOfNodes();
        {
            CoutCapture cap2;
            s->printTimings();
        }
    }
    catch (const std::exception& e) {
        ob.outcome = std::string("exception:") + e.what();
    }
    af.poison = false;
    return ob;
}

bool bits_eq(double a, double b) { return std::memcmp(&a, &b, 8) == 0; }

void run_api(const Value& plan, Result& r)
{
    SolverOpts o = SolverOpts::from_json(plan.at("opts"));
    r.signature  = fmt("api bad_enum=%d ", (int)plan.at("bad_enum").as_int(-1)) + o.str();
    r.nontrivial = true;
    Obs a        = run_api_once(plan, o, (int)plan.at("poison_a").as_int(0), r);
    r.probe(a.outcome == "completed" ? "completed" : "rejected");
    if (o.abs_tol < 0 && o.rel_tol < 0)
        r.probe("both_tolerances_disabled");
    if (o.max_iterations == 0)
        r.probe("zero_iterations");
    if (o.pre == 0 && o.post == 0)
        r.probe("zero_smoothing_steps");
    if (o.max_levels == 2)
        r.probe("level_cap_2");
    if (plan.at("bad_enum").as_int(-1) >= 0)
        r.probe("invalid_enum_integer");
    // must-reject cases
    const bool take_without_caches = o.stencil == 0 && !(o.cache_coeff && o.cache_geo);
    if (take_without_caches) {
        r.probe("take_without_caches");
        if (a.outcome == "completed")
            r.fail("C20.take_without_caches_accepted", r.signature);
    }
    // (an out-of-range integer cast into an enum by the caller is not an "option value reachable through the setters";
    //  the command line rejects it, see scenario cli.  Here it only must not crash.)
    if (a.outcome == "completed") {
        // statistics are well defined
        if (a.its < 0 || a.its > o.max_iterations)
            r.fail("C20.iteration_count_out_of_range", fmt("its=%d max=%d; %s", a.its, o.max_iterations, r.signature.c_str()));
        // inside the configuration set of C01 the solution and the reduction factor are finite (outside it, e.g. with
        // zero smoothing steps, the iteration may diverge and the factor legitimately overflows: that is still a
        // well-defined function of the solve, which the poison differential below checks)
        const bool c01 = o.pre >= 1 && o.post >= 1 && o.aniso == 0 && plan.at("bad_enum").as_int(-1) < 0 &&
                         o.extrapolation != 2;
        if (c01 && !a.finite)
            r.fail("C20.solution_not_finite", r.signature);
        if (c01 && !std::isfinite(a.rho))
            r.fail("C20.reduction_factor_not_finite", fmt("rho=%g its=%d; %s", a.rho, a.its, r.signature.c_str()));
        // error figures of a solve that stopped by tolerance describe the returned solution
        if (a.has_err && a.my_e2 >= 0 && a.its < o.max_iterations && a.finite && std::isfinite(a.my_e2)) {
            r.probe("error_figures_checked");
            if (std::fabs(a.e2 - a.my_e2) > 1e-9 * a.my_e2 + 1e-300 || std::fabs(a.einf - a.my_einf) > 1e-9 * a.my_einf + 1e-300)
                r.fail("C20.error_figures_do_not_describe_the_returned_solution",
                       fmt("exactError (%.12e, %.12e) vs solution()-exact (%.12e, %.12e); %s", a.e2, a.einf, a.my_e2, a.my_einf,
                           r.signature.c_str()));
        }
        // the mean reduction factor is the function of the residual history the documentation states, whichever
        // tolerance is enabled: (last / first)^(1 / iterations)
        if (a.its > 0 && a.norms.size() >= 2 && a.norms.front() > 0 && std::isfinite(a.norms.front()) &&
            std::isfinite(a.norms.back())) {
            double want = std::pow(a.norms.back() / a.norms.front(), 1.0 / a.its);
            r.probe(o.rel_tol < 0 ? "rho_checked_relative_tolerance_disabled"
                                  : o.abs_tol < 0 ? "rho_checked_absolute_tolerance_disabled" : "rho_checked");
            if (std::isfinite(want) && !(std::fabs(a.rho - want) <= 1e-9 * std::max(1.0, std::fabs(want))))
                r.fail("C20.reduction_factor_is_not_the_mean_of_the_residual_history",
                       fmt("rho=%.12g but (%.6e / %.6e)^(1/%d) = %.12g; %s", a.rho, a.norms.back(), a.norms.front(), a.its,
                           want, r.signature.c_str()));
        }
    }
    // memory-poison differential (fast / trace flavours: our allocator)
    if (!is_asan()) {
        Obs b = run_api_once(plan, o, (int)plan.at("poison_b").as_int(1), r);
        r.probe("poison_differential");
        std::string where = fmt("poison %d vs %d; %s", (int)plan.at("poison_a").as_int(0),
                                (int)plan.at("poison_b").as_int(1), r.signature.c_str());
        if ((a.outcome == "completed") != (b.outcome == "completed"))
            r.fail("C20.outcome_depends_on_uninitialised_memory", a.outcome + " vs " + b.outcome + "; " + where);
        else if (a.outcome == "completed") {
            if (a.its != b.its)
                r.fail("C20.iterations_depend_on_uninitialised_memory", fmt("%d vs %d; %s", a.its, b.its, where.c_str()));
            if (!bits_eq(a.rho, b.rho))
                r.fail("C20.reduction_factor_depends_on_uninitialised_memory",
                       fmt("%.17g vs %.17g; %s", a.rho, b.rho, where.c_str()));
            if (a.has_err != b.has_err || (a.has_err && (!bits_eq(a.e2, b.e2) || !bits_eq(a.einf, b.einf))))
                r.fail("C20.error_figures_depend_on_uninitialised_memory", where);
            if (a.sol_hash != b.sol_hash)
                r.fail("C20.solution_depends_on_uninitialised_memory", where);
        }
    }
}

/* ---------------------------------------------------------------------------------------------------------- */
/* command line                                                                                               */
/* ---------------------------------------------------------------------------------------------------------- */
Value gen_cli(uint64_t seed, const std::string& tier)
{
    Rng g(sim::mix(seed, 0xC20C));
    Value args = Value::array();
    auto opt = [&](const char* name, const std::string& val) {
        args.push(std::string("--") + name);
        args.push(val);
    };
    auto maybe = [&](double p) { return g.chance(p); };
    auto istr = [&](int v) { return fmt("%d", v); };
    if (maybe(0.8)) opt("nr_exp", istr(g.range(2, 4)));
    if (maybe(0.5)) opt("ntheta_exp", istr(g.chance(0.3) ? -1 : g.range(2, 5)));
    if (maybe(0.3)) opt("anisotropic_factor", istr(g.range(0, 3)));
    if (maybe(0.3)) opt("divideBy2", istr(g.range(0, 1)));
    if (maybe(0.3)) opt("R0", fmt("%g", g.chance(0.5) ? 1e-5 : g.loguniform(1e-8, 0.5)));
    if (maybe(0.6)) opt("geometry", istr(g.chance(0.3) ? 3 : g.range(0, 3)));
    if (maybe(0.6)) opt("problem", istr(g.chance(0.4) ? g.range(2, 3) : g.range(0, 3)));
    if (maybe(0.6)) opt("alpha_coeff", istr(g.chance(0.4) ? 3 : g.range(0, 3)));
    if (maybe(0.6)) opt("beta_coeff", istr(g.range(0, 1)));
    if (maybe(0.4)) opt("alpha_jump", fmt("%g", g.chance(0.3) ? 0.0 : g.uniform(0.3, 1.2)));
    if (maybe(0.7)) {
        // shape parameters: the same two options mean (kappa, delta) for Shafranov and (epsilon, e) for Czarny
        bool czarny_like = g.chance(0.5);
        opt("kappa_eps", fmt("%g", czarny_like ? g.uniform(0.1, 0.4) : g.uniform(0.0, 0.35)));
        opt("delta_e", fmt("%g", czarny_like ? g.uniform(1.0, 1.6) : g.uniform(0.0, 0.2)));
    }
    if (maybe(0.4)) opt("DirBC_Interior", istr(g.range(0, 1)));
    if (maybe(0.4)) opt("FMG", istr(g.range(0, 1)));
    if (maybe(0.3)) opt("FMG_iterations", istr(g.range(0, 3)));
    if (maybe(0.3)) opt("FMG_cycle", istr(g.range(0, 2)));
    if (maybe(0.5)) opt("extrapolation", istr(g.range(0, 3)));
    if (maybe(0.4)) opt("maxLevels", istr(g.chance(0.3) ? -1 : g.range(1, 5)));
    if (maybe(0.3)) opt("preSmoothingSteps", istr(g.range(0, 2)));
    if (maybe(0.3)) opt("postSmoothingSteps", istr(g.range(0, 2)));
    if (maybe(0.3)) opt("multigridCycle", istr(g.range(0, 2)));
    if (maybe(0.3)) opt("residualNormType", istr(g.range(0, 2)));
    opt("maxIterations", istr(g.chance(0.1) ? 0 : g.range(1, 12)));
    if (maybe(0.3)) opt("absoluteTolerance", fmt("%g", g.chance(0.5) ? -1.0 : 1e-8));
    if (maybe(0.3)) opt("relativeTolerance", fmt("%g", g.chance(0.5) ? -1.0 : 1e-8));
    if (maybe(0.5)) opt("maxOpenMPThreads", istr(g.range(1, 8)));
    if (maybe(0.2)) opt("threadReductionFactor", fmt("%g", g.uniform(0.1, 1.0)));
    if (maybe(0.5)) opt("stencilDistributionMethod", istr(g.range(0, 1)));
    if (maybe(0.2)) opt("cacheDensityProfileCoefficients", istr(g.range(0, 1)));
    if (maybe(0.2)) opt("cacheDomainGeometry", istr(g.range(0, 1)));
    if (maybe(0.3)) opt("verbose", istr(g.range(0, 1)));
    // malformed command lines
    int bad = (int)g.below(20);
    if (bad == 0) opt("extrapolation", "7"); // outside oneof
    if (bad == 1) opt("no_such_option", "1");
    if (bad == 2) args.push("--nr_exp"); // missing value
    if (bad == 3) opt("nr_exp", "abc");
    if (bad == 4) args.push("--help");
    if (bad == 5) opt("load_grid_file", "1"); // with empty file names
    if (bad == 6) opt("geometry", "9");
    Value p    = Value::object();
    p["args"]  = args;
    p["sim"]   = gen_sim(g);
    return p;
}

void run_cli(const Value& plan, Result& r)
{
    std::vector<std::string> a;
    a.push_back("gmgpolar");
    for (const Value& v : plan.at("args").a)
        a.push_back(v.as_str());
    std::string line;
    for (auto& s : a)
        line += s + " ";
    r.signature  = "cli " + line;
    r.nontrivial = true;
    std::vector<char*> argv;
    for (auto& s : a)
        argv.push_back(const_cast<char*>(s.c_str()));
    argv.push_back(nullptr);
    std::string outcome;
    {
        CoutCapture cap;
        std::streambuf* olderr = std::cerr.rdbuf(cap.buf->rdbuf());
        SimRun sr(plan.at("sim"), r);
        if (setjmp(g_cli_jmp) == 0) {
            g_cli_active = true;
            try {
                int rc  = gmgpolar_cli_main((int)a.size(), argv.data());
                outcome = fmt("returned:%d", rc);
            }
            catch (const std::exception& e) {
                outcome = std::string("exception:") + e.what(); // main lets it escape: non-zero status via terminate
            }
        }
        else
            outcome = fmt("exit:%d", g_cli_code);
        g_cli_active = false;
        std::cerr.rdbuf(olderr);
    }
    r.probe(outcome.substr(0, outcome.find(':')));
    // The shipped catalogue of test cases (geometry x problem x coefficients): a combination for which no source term
    // exists must be rejected, never run with whatever the object held before.  (Last occurrence of an option wins.)
    {
        int geometry = 0, problem = 0, alpha = 1, beta = 0;
        bool malformed = false;
        for (size_t k = 1; k + 1 < a.size(); k++) {
            const std::string& key = a[k];
            auto num = [&](int& dst) {
                char* end = nullptr;
                long v    = strtol(a[k + 1].c_str(), &end, 10);
                if (end == a[k + 1].c_str() || *end)
                    malformed = true;
                else
                    dst = (int)v;
            };
            if (key == "--geometry") num(geometry);
            else if (key == "--problem") num(problem);
            else if (key == "--alpha_coeff") num(alpha);
            else if (key == "--beta_coeff") num(beta);
        }
        ProblemSpec ps;
        ps.geometry = geometry;
        ps.problem  = problem;
        ps.coeff    = alpha == 0 ? 0 : (alpha == 1 ? (beta ? 2 : 1) : alpha == 2 ? (beta ? 4 : 3) : (beta ? 6 : 5));
        ps.p1 = 0.3;
        ps.p2 = 1.4;
        bool supported = geometry >= 0 && geometry <= 3 && problem >= 0 && problem <= 3 && alpha >= 0 && alpha <= 3 &&
                         beta >= 0 && beta <= 1;
        if (supported) {
            try {
                Problem p = make_problem(ps);
                supported = p.source != nullptr && p.exact != nullptr && p.bc != nullptr;
            }
            catch (const std::exception&) {
                supported = false;
            }
        }
        r.probe(supported ? "catalogue_supported" : "catalogue_unsupported");
        if (!malformed && !supported && outcome == "returned:0")
            r.fail("C20.unsupported_test_case_accepted",
                   fmt("geometry=%d problem=%d alpha_coeff=%d beta_coeff=%d has no shipped source term but the command "
                       "line ran to completion; %s",
                       geometry, problem, alpha, beta, r.signature.c_str()));
    }
    // nothing else to judge here: a crash, sanitizer report, failed assertion or deadlock kills the worker and is
    // classified by the driver; the three outcomes above are all "rejected cleanly or completed".
}

Registrar r1({"options", "C20", "asan,fast", gen_api, run_api});
Registrar r2({"cli", "C20", "asan", gen_cli, run_cli});

} // namespace
