// Operator bench: builds a coarsening chain of Levels through the public API and runs one operator of the library on
// seeded inputs inside the currently active simulated run.  Shared by the scenarios of C03..C08, C11, C12.
#pragma once
#include "harness/common.h"

#include "Residual/ResidualGive/residualGive.h"
#include "Residual/ResidualTake/residualTake.h"
#include "DirectSolver/DirectSolverGiveCustomLU/directSolverGiveCustomLU.h"
#include "DirectSolver/DirectSolverTakeCustomLU/directSolverTakeCustomLU.h"
#include "Smoother/SmootherGive/smootherGive.h"
#include "Smoother/SmootherTake/smootherTake.h"
#include "ExtrapolatedSmoother/ExtrapolatedSmootherGive/extrapolatedSmootherGive.h"
#include "ExtrapolatedSmoother/ExtrapolatedSmootherTake/extrapolatedSmootherTake.h"
#include "Interpolation/interpolation.h"

namespace hs {

enum OpKind
{
    OP_RES_GIVE = 0,
    OP_RES_TAKE,
    OP_DS_GIVE,
    OP_DS_TAKE,
    OP_SM_GIVE,
    OP_SM_TAKE,
    OP_EXSM_GIVE,
    OP_EXSM_TAKE,
    OP_PROL,
    OP_PROL0,
    OP_EXPROL,
    OP_EXPROL0,
    OP_RESTR,
    OP_RESTR0,
    OP_EXRESTR,
    OP_EXRESTR0,
    OP_INJ,
    OP_FMG,
    OP_CACHE_FINE,
    OP_CACHE_COARSE,
    OP_KERNELS,
    OP_COUNT
};
const char* op_name(int k);
inline bool op_is_take(int k) { return k == OP_RES_TAKE || k == OP_DS_TAKE || k == OP_SM_TAKE || k == OP_EXSM_TAKE; }
inline bool op_is_transfer(int k) { return k >= OP_PROL && k <= OP_FMG; }
inline bool op_is_prolongation_like(int k)
{
    return k == OP_PROL || k == OP_PROL0 || k == OP_EXPROL || k == OP_EXPROL0 || k == OP_FMG;
}

struct BenchSpec {
    ProblemSpec prob;
    GridSpec grid;
    bool dirbc = false, cache_coeff = true, cache_geo = true;
    int T = 1; // threads handed to operator constructors / Interpolation
    int nlevels = 1; // length of the coarsening chain
    Value to_json() const;
    static BenchSpec from_json(const Value& v);
    std::string str() const;
};

struct Bench {
    BenchSpec spec;
    Problem prob;
    std::vector<TestLevel> levels;
    std::vector<int> threads_per_level;
    std::unique_ptr<Interpolation> interp;
    void build(const BenchSpec& s); // may throw std::exception for inadmissible specs
    const PolarGrid& grid(int l) const { return levels[l].grid(); }
    int nodes(int l) const { return levels[l].grid().numberOfNodes(); }
};

struct OpInput {
    int op = 0;
    int level = 0; // level the operator acts on (transfers: the fine level of the pair)
    uint64_t seed_x = 1, seed_f = 2;
    int kind_x = VK_UNIFORM, kind_f = VK_UNIFORM;
    double scale_x = 1, scale_f = 1;
    int nsweeps = 1;
    Value to_json() const;
    static OpInput from_json(const Value& v);
};

// admissibility of (bench, op, level) according to the library's documented preconditions
bool op_admissible(const Bench& b, int op, int level, std::string* why = nullptr);

// Runs the operator (construction included) under the active simulated run.  Outputs are appended to `out`.
// For smoothers: one vector per sweep.  x_in / f_in receive the inputs used (library numbering).
void exec_op(Bench& b, const OpInput& in, std::vector<Vector<double>>& out, Vector<double>* x_in = nullptr,
             Vector<double>* f_in = nullptr);

// true if every fine node of pair (level, level+1) is the midpoint of its coarse neighbours
bool midpoint_pair(const PolarGrid& fine, const PolarGrid& coarse, double tol = 1e-12);

// qualifier appended to violation classes that need a documented-but-defective context to manifest (known findings)
std::string context_tag(const PolarGrid& g, bool dirbc, int op);

Value gen_bench(Rng& g, int min_levels, int max_levels, long max_nodes, bool need_theta_div4, int tmax);

} // namespace hs
