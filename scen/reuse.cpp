// C13 -- a solver object can be reused: operation histories on ONE GMGPolar object, checked after every solve
// against a freshly constructed object given the same cumulative options (refinement against the fresh-object model).
#include "harness/solver_cfg.h"

using namespace hs;

namespace {

/* solve-time options may change without a new setup(); structural ones are always followed by setup() */
const char* SOLVE_TIME[] = {"cycle", "pre", "post", "max_iterations", "norm_type", "abs_tol", "rel_tol", "fmg_iterations",
                            "fmg_cycle"};
const char* STRUCTURAL[] = {"extrapolation", "fmg", "divideBy2", "nr_exp", "stencil", "threads", "dirbc", "max_levels", "R0",
                            "cache", "reduction", "aniso"};

Value set_op(const char* key, const Value& val)
{
    Value o  = Value::object();
    o["op"]  = "set";
    o["key"] = key;
    o["val"] = val;
    return o;
}
Value simple_op(const char* name)
{
    Value o = Value::object();
    o["op"] = name;
    return o;
}

Value random_set(Rng& g, bool structural, const SolverOpts& cur)
{
    if (!structural) {
        switch (g.below(9)) {
        case 0: return set_op("cycle", g.range(0, 2));
        case 1: return set_op("pre", g.range(1, 3));
        case 2: return set_op("post", g.range(1, 3));
        case 3: return set_op("max_iterations", g.chance(0.15) ? 0 : (g.chance(0.3) ? g.range(1, 5) : 150));
        case 4: return set_op("norm_type", g.range(0, 2));
        case 5: return set_op("abs_tol", g.chance(0.5) ? 1e-8 : 1e-6);
        case 6: return set_op("rel_tol", g.chance(0.5) ? 1e-8 : 1e-6);
        case 7: return set_op("fmg_iterations", g.range(0, 3));
        default: return set_op("fmg_cycle", g.range(0, 2));
        }
    }
    switch (g.below(11)) {
    case 9: {
        // the same number of nodes at other positions (only the inner radius moves)
        static const double r0s[] = {1e-5, 1e-3, 0.05, 0.1};
        return set_op("R0", r0s[g.below(4)]);
    }
    case 0: return set_op("extrapolation", g.range(0, 3));
    case 1: return set_op("fmg", g.chance(0.5));
    case 2: return set_op("divideBy2", cur.divideBy2 == 0 ? 1 : 0);
    case 3: return set_op("nr_exp", g.range(3, 5));
    case 4: return set_op("stencil", g.range(0, 1));
    case 5: return set_op("threads", g.range(1, 8));
    case 6: return set_op("dirbc", g.chance(0.5));
    case 7: return set_op("max_levels", g.chance(0.5) ? -1 : g.range(2, 4));
    case 8: return set_op("reduction", g.chance(0.5) ? 1.0 : 0.5);
    default: return set_op("extrapolation", 3); // the combined mode switches smoother from the residual history
    }
}

void apply_set(SolverOpts& o, const std::string& key, const Value& v)
{
    if (key == "cycle") o.cycle = (int)v.as_int();
    else if (key == "pre") o.pre = (int)v.as_int();
    else if (key == "post") o.post = (int)v.as_int();
    else if (key == "max_iterations") o.max_iterations = (int)v.as_int();
    else if (key == "norm_type") o.norm_type = (int)v.as_int();
    else if (key == "abs_tol") o.abs_tol = v.as_double();
    else if (key == "rel_tol") o.rel_tol = v.as_double();
    else if (key == "fmg_iterations") o.fmg_iterations = (int)v.as_int();
    else if (key == "fmg_cycle") o.fmg_cycle = (int)v.as_int();
    else if (key == "extrapolation") o.extrapolation = (int)v.as_int();
    else if (key == "fmg") o.fmg = v.as_bool();
    else if (key == "divideBy2") o.divideBy2 = (int)v.as_int();
    else if (key == "nr_exp") o.nr_exp = (int)v.as_int();
    else if (key == "stencil") {
        o.stencil = (int)v.as_int();
        if (o.stencil == 0)
            o.cache_coeff = o.cache_geo = true;
    }
    else if (key == "threads") o.threads = (int)v.as_int();
    else if (key == "dirbc") o.dirbc = v.as_bool();
    else if (key == "max_levels") o.max_levels = (int)v.as_int();
    else if (key == "reduction") o.reduction = v.as_double();
    else if (key == "R0") o.R0 = v.as_double();
}

// what a user does between two solves: call the ONE setter of the option that changes (re-applying every option would
// overwrite, and so hide, option members that a previous setup()/solve() modified behind the user's back)
void apply_key(GMGPolar& s, const std::string& key, const SolverOpts& o)
{
    if (key == "cycle") s.multigridCycle((MultigridCycleType)o.cycle);
    else if (key == "pre") s.preSmoothingSteps(o.pre);
    else if (key == "post") s.postSmoothingSteps(o.post);
    else if (key == "max_iterations") s.maxIterations(o.max_iterations);
    else if (key == "norm_type") s.residualNormType((ResidualNormType)o.norm_type);
    else if (key == "abs_tol") s.absoluteTolerance(o.abs_tol);
    else if (key == "rel_tol") s.relativeTolerance(o.rel_tol);
    else if (key == "fmg_iterations") s.FMG_iterations(o.fmg_iterations);
    else if (key == "fmg_cycle") s.FMG_cycle((MultigridCycleType)o.fmg_cycle);
    else if (key == "extrapolation") s.extrapolation((ExtrapolationType)o.extrapolation);
    else if (key == "fmg") s.FMG(o.fmg);
    else if (key == "divideBy2") s.divideBy2(o.divideBy2);
    else if (key == "nr_exp") s.nr_exp(o.nr_exp);
    else if (key == "stencil") {
        s.stencilDistributionMethod(o.stencil ? StencilDistributionMethod::CPU_GIVE : StencilDistributionMethod::CPU_TAKE);
        s.cacheDensityProfileCoefficients(o.cache_coeff);
        s.cacheDomainGeometry(o.cache_geo);
    }
    else if (key == "threads") s.maxOpenMPThreads(o.threads);
    else if (key == "dirbc") s.DirBC_Interior(o.dirbc);
    else if (key == "max_levels") s.maxLevels(o.max_levels);
    else if (key == "reduction") s.threadReductionFactor(o.reduction);
    else if (key == "R0") s.R0(o.R0);
    else apply_opts(s, o);
}

Value gen(uint64_t seed, const std::string& tier)
{
    Rng g(sim::mix(seed, 0xC13));
    SolverOpts o = gen_opts(g, 33L * 64L + 1, true);
    o.aniso      = 0;
    o.nr_exp     = g.range(3, 5);
    o.ntheta_exp = -1;
    o.divideBy2  = 0;
    o.threads    = g.range(1, 6);
    if (o.abs_tol < 0 && o.rel_tol < 0)
        o.rel_tol = 1e-8;
    if (g.chance(0.35))
        o.extrapolation = 3;
    o.with_exact = g.chance(0.8);
    Value hist   = Value::array();
    int len      = g.range(2, tier == "thorough" ? 8 : 6);
    hist.push(simple_op("setup"));
    hist.push(simple_op("solve"));
    SolverOpts cur = o;
    bool need_setup = false;
    if (g.chance(0.25)) {
        // "mode tour": the same object is set up and solved for a sequence of extrapolation modes (every ordered pair
        // of modes is a different history for the state that setup() must rebuild)
        int steps = g.range(2, 4);
        for (int k = 0; k < steps; k++) {
            int m = g.range(0, 3);
            hist.push(set_op("extrapolation", m));
            if (g.chance(0.3))
                hist.push(set_op("fmg", g.chance(0.5)));
            hist.push(simple_op("setup"));
            hist.push(simple_op("solve"));
            if (g.chance(0.3))
                hist.push(simple_op("solve"));
        }
    }
    else if (g.chance(0.12)) {
        // the refinement-loop pattern of the shipped convergence_order program
        for (int k = 1; k <= 2; k++) {
            hist.push(set_op("divideBy2", k));
            hist.push(simple_op("setup"));
            hist.push(simple_op("solve"));
        }
    }
    else
        for (int k = 0; k < len; k++) {
            int c = (int)g.below(100);
            if (c < 30) {
                hist.push(simple_op("solve")); // solve again (without setup unless one is pending)
            }
            else if (c < 50) {
                Value s = random_set(g, false, cur);
                apply_set(cur, s.at("key").as_str(), s.at("val"));
                hist.push(s);
                hist.push(simple_op("solve"));
            }
            else if (c < 75) {
                Value s = random_set(g, true, cur);
                apply_set(cur, s.at("key").as_str(), s.at("val"));
                hist.push(s);
                hist.push(simple_op("setup"));
                hist.push(simple_op("solve"));
            }
            else if (c < 83) {
                hist.push(simple_op("setup_rejected"));
                hist.push(simple_op("setup"));
                hist.push(simple_op("solve"));
            }
            else if (c < 91) {
                Value f  = simple_op("setup_badalloc");
                f["k"]   = g.range(1, 400);
                hist.push(f);
                hist.push(simple_op("setup"));
                hist.push(simple_op("solve"));
            }
            else {
                hist.push(simple_op("setup"));
                hist.push(simple_op("solve"));
            }
        }
    (void)need_setup;
    Value p      = Value::object();
    p["opts"]    = o.to_json();
    p["history"] = hist;
    p["sim"]     = canonical_sim();
    return p;
}

struct Outcome {
    bool threw = false;
    std::string what;
    Vector<double> sol;
    int its = -1;
    double rho = 0;
    bool has_err = false;
    double e2 = 0, einf = 0;
    int nr = 0, nt = 0;
};

void observe(GMGPolar& s, const SolverOpts& o, Outcome& out)
{
    out.sol = s.solution();
    out.its = s.numberOfIterations();
    out.rho = s.meanResidualReductionFactor();
    out.nr  = s.grid().nr();
    out.nt  = s.grid().ntheta();
    if (o.with_exact && out.its > 0) { // with zero iterations no error figure was computed by this solve (F2)
        auto a = s.exactErrorWeightedEuclidean();
        auto b = s.exactErrorInfinity();
        if (a.has_value() && b.has_value()) {
            out.has_err = true;
            out.e2      = *a;
            out.einf    = *b;
        }
    }
}

Outcome fresh_outcome(const SolverOpts& o, Result& r)
{
    Outcome out;
    Problem keep;
    auto s = new_solver(o, keep);
    CoutCapture cap;
    SimRun sr(canonical_sim(), r);
    try {
        s->setup();
        s->solve();
        observe(*s, o, out);
    }
    catch (const std::exception& e) {
        out.threw = true;
        out.what  = e.what();
    }
    return out;
}

bool same_bits(double a, double b) { return std::memcmp(&a, &b, sizeof a) == 0; }

void run(const Value& plan, Result& r)
{
    SolverOpts o = SolverOpts::from_json(plan.at("opts"));
    const Value& hist = plan.at("history");
    r.signature = fmt("reuse len=%zu ", hist.size()) + o.str();
    Problem keep;
    auto s = new_solver(o, keep);
    SolverOpts cur = o;
    int nsolves = 0;
    bool set_up = false;
    bool dirty_since_setup = false; // a solve has already run on the current levels
    std::string path; // compact history string
    for (size_t k = 0; k < hist.size(); k++) {
        const Value& op       = hist[k];
        const std::string kind = op.at("op").as_str();
        if (kind == "set") {
            apply_set(cur, op.at("key").as_str(), op.at("val"));
            apply_key(*s, op.at("key").as_str(), cur);
            path += "set(" + op.at("key").as_str() + ");";
            continue;
        }
        if (kind == "setup") {
            CoutCapture cap;
            SimRun sr(canonical_sim(), r);
            try {
                s->setup();
                set_up            = true;
                dirty_since_setup = false;
            }
            catch (const std::exception& e) {
                set_up = false;
                r.probe("setup_threw");
            }
            path += "setup;";
            continue;
        }
        if (kind == "setup_rejected") {
            // take strategy without caches must be rejected; the object must stay usable afterwards
            s->stencilDistributionMethod(StencilDistributionMethod::CPU_TAKE);
            s->cacheDomainGeometry(false);
            bool threw = false;
            {
                CoutCapture cap;
                SimRun sr(canonical_sim(), r);
                try {
                    s->setup();
                }
                catch (const std::exception&) {
                    threw = true;
                }
            }
            if (!threw)
                r.fail("C13.invalid_setup_not_rejected", "take without caches was accepted by setup()");
            apply_key(*s, "stencil", cur);
            set_up = false;
            r.probe("rejected_setup");
            path += "setup_rejected;";
            continue;
        }
        if (kind == "setup_badalloc") {
            if (is_asan())
                continue; // operator new belongs to ASan in that flavour
            sim::AllocFaults& af = sim::alloc_faults();
            bool threw           = false;
            {
                CoutCapture cap;
                SimRun sr(canonical_sim(), r);
                af.fail_at = op.at("k").as_int(1);
                af.armed   = true;
                try {
                    s->setup();
                }
                catch (const std::bad_alloc&) {
                    threw = true;
                }
                catch (const std::exception&) {
                    threw = true;
                }
                af.armed   = false;
                af.fail_at = 0;
            }
            if (threw) {
                r.probe("fault:alloc_fail");
                set_up = false;
            }
            else {
                set_up            = true;
                dirty_since_setup = false;
            }
            path += "setup_badalloc;";
            continue;
        }
        if (kind == "solve") {
            if (!set_up)
                continue; // nothing to solve on: a failed setup must be followed by a successful one
            Outcome got;
            {
                CoutCapture cap;
                SimRun sr(canonical_sim(), r);
                try {
                    s->solve();
                    observe(*s, cur, got);
                }
                catch (const std::exception& e) {
                    got.threw = true;
                    got.what  = e.what();
                }
            }
            nsolves++;
            const bool without_setup = dirty_since_setup;
            dirty_since_setup        = true;
            path += without_setup ? "solve(no setup);" : "solve;";
            Outcome want = fresh_outcome(cur, r);
            r.probe(without_setup ? "solve_without_setup" : "solve_after_setup");
            if (nsolves >= 2)
                r.probe("second_or_later_solve");
            // context qualifiers of the known findings F1/F2/F3 (DESIGN 7)
            std::string tag;
            if (without_setup && cur.extrapolation == 3)
                tag = "[solve_without_setup,combined]";
            else if (cur.max_iterations == 0)
                tag = "[zero_iterations]";
            else if (nsolves >= 2 && cur.extrapolation == 3)
                tag = "[later_solve,combined]";
            std::string where = fmt("solve #%d (history: %s) %s", nsolves, path.c_str(), cur.str().c_str());
            if (got.threw != want.threw) {
                r.fail("C13.exception_differs_from_fresh" + tag,
                       fmt("reused object %s, fresh object %s; %s", got.threw ? got.what.c_str() : "completed",
                           want.threw ? want.what.c_str() : "completed", where.c_str()));
                continue;
            }
            if (got.threw)
                continue;
            if (got.nr != want.nr || got.nt != want.nt) {
                r.fail("C13.grid_differs_from_fresh" + tag, where);
                continue;
            }
            if (got.its != want.its)
                r.fail("C13.iterations_differ_from_fresh" + tag,
                       fmt("iterations %d vs fresh %d (rho %.6g vs %.6g); %s", got.its, want.its, got.rho, want.rho,
                           where.c_str()));
            int idx = -1;
            if (!bit_equal(got.sol, want.sol, &idx))
                r.fail("C13.solution_differs_from_fresh" + tag,
                       fmt("index %d: %.17g vs fresh %.17g; %s", idx, idx >= 0 ? got.sol[idx] : 0.0,
                           idx >= 0 ? want.sol[idx] : 0.0, where.c_str()));
            if (got.its > 0 && !same_bits(got.rho, want.rho))
                r.fail("C13.reduction_factor_differs_from_fresh" + tag,
                       fmt("rho %.17g vs fresh %.17g; %s", got.rho, want.rho, where.c_str()));
            if (got.has_err != want.has_err ||
                (got.has_err && (!same_bits(got.e2, want.e2) || !same_bits(got.einf, want.einf))))
                r.fail("C13.error_figures_differ_from_fresh" + tag,
                       fmt("errors (%.17g, %.17g) vs fresh (%.17g, %.17g); %s", got.e2, got.einf, want.e2, want.einf,
                           where.c_str()));
            // statistics describe this solve only: with zero iterations nothing may be carried over
            if (cur.max_iterations == 0 && cur.with_exact && nsolves >= 2) {
                bool stale = false;
                try {
                    auto a = s->exactErrorWeightedEuclidean();
                    if (a.has_value())
                        stale = true;
                }
                catch (...) {
                }
                if (stale)
                    r.fail("C13.stale_error_figure[zero_iterations]",
                           "exactError*() reports a figure although this solve computed none; " + where);
            }
            r.nontrivial = r.nontrivial || nsolves >= 2;
        }
    }
    r.probe(fmt("solves_%d", std::min(nsolves, 6)));
}

Registrar reg({"reuse", "C13", "fast,asan", gen, run});

} // namespace
