// Self-test of the simulator (not tied to a property): small OpenMP programs with known answers run under simgomp, and
// deliberately racy ones that the HB monitor must report (trace flavour).  `./check selftest` judges the outcome.
#include "harness/common.h"
#include <omp.h>
#include <numeric>

using namespace hs;

namespace {

Value gen(uint64_t seed, const std::string&)
{
    Rng g(sim::mix(seed, 0x5E1F));
    Value p   = Value::object();
    p["case"] = (int)g.below(12);
    p["T"]    = g.range(2, 9);
    p["n"]    = g.range(1, 200);
    p["sim"]  = gen_sim(g, false);
    return p;
}

void run(const Value& plan, Result& r)
{
    const int c = (int)plan.at("case").as_int(0), T = (int)plan.at("T").as_int(2), n = (int)plan.at("n").as_int(10);
    r.signature  = fmt("selftest case=%d T=%d n=%d", c, T, n);
    r.nontrivial = true;
    r.probe(fmt("case_%d", c));
    std::vector<double> a(n, 0.0);
    long counter = 0, singles = 0, sections = 0;
    double red   = 0;
    bool expect_race = false;
    {
        SimRun sr(plan.at("sim"), r);
        omp_set_num_threads(T);
        switch (c) {
        case 0: // static loop, disjoint writes
#pragma omp parallel for
            for (int i = 0; i < n; i++)
                a[i] = i;
            break;
        case 1: // dynamic schedule
#pragma omp parallel for schedule(dynamic, 3)
            for (int i = 0; i < n; i++)
                a[i] = i;
            break;
        case 2: // guided schedule + reduction
#pragma omp parallel for schedule(guided) reduction(+ : red)
            for (int i = 0; i < n; i++) {
                a[i] = i;
                red += i;
            }
            break;
        case 3: // critical section protects a shared counter
#pragma omp parallel
            {
                for (int k = 0; k < 5; k++) {
#pragma omp critical
                    counter++;
                }
            }
            break;
        case 4: // atomic update
#pragma omp parallel
            {
                for (int k = 0; k < 5; k++) {
#pragma omp atomic
                    counter++;
                }
            }
            break;
        case 5: // single + barrier
#pragma omp parallel
            {
#pragma omp single
                singles++;
#pragma omp for
                for (int i = 0; i < n; i++)
                    a[i] = i + (double)singles - 1.0;
            }
            break;
        case 6: // sections
#pragma omp parallel sections
            {
#pragma omp section
                {
#pragma omp atomic
                    sections += 1;
                }
#pragma omp section
                {
#pragma omp atomic
                    sections += 10;
                }
#pragma omp section
                {
#pragma omp atomic
                    sections += 100;
                }
            }
            break;
        case 7: { // omp locks
            omp_lock_t l;
            omp_init_lock(&l);
#pragma omp parallel
            {
                omp_set_lock(&l);
                counter += 2;
                omp_unset_lock(&l);
            }
            omp_destroy_lock(&l);
            break;
        }
        case 8: // nested region is serialised
#pragma omp parallel
            {
#pragma omp parallel for
                for (int i = 0; i < n; i++) {
#pragma omp atomic
                    a[i] += 1.0;
                }
            }
            break;
        case 9: // RACY: unsynchronised shared counter
            expect_race = true;
#pragma omp parallel
            {
                counter++;
            }
            break;
        case 10: // RACY: nowait between a writer loop and a reader loop with a different partition
            expect_race = true;
            if (n < 8)
                a.assign(8, 0.0);
#pragma omp parallel
            {
                const int m = (int)a.size();
#pragma omp for nowait
                for (int i = 0; i < m; i++)
                    a[i] = i;
#pragma omp for
                for (int i = 0; i < m - 1; i++)
                    red += 0 * a[(i * 7 + 3) % m]; // reads elements other threads may still be writing; red itself races too
            }
            break;
        default: // tasks (undeferred) + taskwait
#pragma omp parallel
            {
#pragma omp single
                {
                    for (int i = 0; i < n; i++) {
#pragma omp task firstprivate(i) shared(a)
                        a[i] = i;
                    }
#pragma omp taskwait
                }
            }
        }
    }
    bool raced = false;
    for (auto& v : r.violations)
        if (v.cls.rfind("race", 0) == 0)
            raced = true;
    const int Tn = T;
    auto expect = [&](bool ok, const char* what) {
        if (!ok)
            r.fail(fmt("selftest.wrong_result:case%d", c), what);
    };
    switch (c) {
    case 0:
    case 1:
    case 11:
        for (int i = 0; i < n; i++)
            expect(a[i] == i, "loop result");
        break;
    case 2:
        expect(red == 0.5 * n * (n - 1.0), "reduction");
        break;
    case 3:
    case 4:
        expect(counter == 5L * Tn || counter > 0, "counter");
        if (plan.at("sim").at("shortfall_p").as_double(0) == 0)
            expect(counter == 5L * Tn, "counter exact");
        break;
    case 5:
        expect(singles == 1, "single executed once");
        for (int i = 0; i < n; i++)
            expect(a[i] == i, "value after single");
        break;
    case 6:
        expect(sections == 111, "sections each once");
        break;
    case 7:
        expect(counter == 2L * Tn, "lock protected counter");
        break;
    case 8:
        for (int i = 0; i < n; i++)
            expect(a[i] == (double)Tn, "nested serialised: every outer thread runs the whole inner loop");
        break;
    default: break;
    }
    if (is_trace()) {
        if (expect_race && !raced)
            r.fail(fmt("selftest.race_not_reported:case%d", c), r.signature);
        if (!expect_race && raced)
            r.fail(fmt("selftest.false_race:case%d", c), r.signature);
        if (expect_race && raced) {
            // expected: not a violation of the self-test
            r.violations.erase(std::remove_if(r.violations.begin(), r.violations.end(),
                                              [](const Violation& v) { return v.cls.rfind("race", 0) == 0; }),
                               r.violations.end());
            r.probe("expected_race_reported");
        }
    }
}

Registrar reg({"selftest", "-", "fast,trace", gen, run});

} // namespace
