// C03 residual, C04 direct solver, C05 SPD, C06 smoother, C07 extrapolated smoother: the real operators run under the
// simulator (seeded schedule, team sizes, shortfall), judged against the sequential reference model.
#include "opbench.h"

using namespace hs;

namespace {

const double CB = 8.0, MB = 12.0; // rounding bound: CB*MB*eps*(|A||x|+|f|)

struct Ref {
    model::RefOperator A;
    void build(const Bench& b, int level) { A.build(b.grid(level), *b.prob.geometry, *b.prob.coeff, b.spec.dirbc); }
    // bound_i = CB*MB*eps*(|A||x| + |f|)_i   (model numbering)
    std::vector<double> bound(const std::vector<double>& x, const std::vector<double>& f) const
    {
        std::vector<double> ax, b(A.n);
        A.apply_abs(x, ax);
        for (int i = 0; i < A.n; i++)
            b[i] = CB * MB * EPS * (ax[i] + std::fabs(f[i]));
        return b;
    }
    std::vector<double> residual(const std::vector<double>& x, const std::vector<double>& f) const
    {
        std::vector<double> ax, r(A.n);
        A.apply(x, ax);
        for (int i = 0; i < A.n; i++)
            r[i] = f[i] - ax[i];
        return r;
    }
};

Bench& full_cache_bench(Bench& b, std::unique_ptr<Bench>& holder)
{
    if (b.spec.cache_coeff && b.spec.cache_geo)
        return b;
    BenchSpec s   = b.spec;
    s.cache_coeff = s.cache_geo = true;
    holder                      = std::make_unique<Bench>();
    holder->build(s);
    return *holder;
}

double inf_norm(const std::vector<double>& v)
{
    double m = 0;
    for (double x : v)
        m = std::max(m, std::fabs(x));
    return m;
}

Value gen_with(uint64_t seed, uint64_t salt, int min_levels, int max_levels, long max_nodes_fast, long max_nodes_trace,
               int op_a, int op_b, int tmax, bool wide_ok = true)
{
    Rng g(sim::mix(seed, salt));
    for (int attempt = 0; attempt < 80; attempt++) {
        long max_nodes = is_trace() ? max_nodes_trace : max_nodes_fast;
        Value bs       = gen_bench(g, min_levels, max_levels, max_nodes, true, tmax);
        BenchSpec spec = BenchSpec::from_json(bs);
        Bench b;
        try {
            b.build(spec);
        }
        catch (const std::exception&) {
            continue;
        }
        int level = (int)g.below((uint64_t)b.levels.size());
        BenchSpec full = spec;
        if (!op_admissible(b, op_a, level))
            continue;
        if (op_b >= 0 && !op_is_take(op_b) && !op_admissible(b, op_b, level))
            continue;
        OpInput in;
        in.op      = op_a;
        in.level   = level;
        in.seed_x  = g.next() >> 1;
        in.seed_f  = g.next() >> 1;
        in.kind_x  = g.range(0, wide_ok ? 4 : 1);
        in.kind_f  = g.range(0, wide_ok ? 4 : 1);
        if (!wide_ok && in.kind_x == VK_WIDE)
            in.kind_x = VK_NORMAL;
        in.scale_x = g.chance(0.2) ? g.loguniform(1e-6, 1e6) : 1.0;
        in.scale_f = g.chance(0.2) ? g.loguniform(1e-6, 1e6) : 1.0;
        in.nsweeps = 1;
        Value p    = Value::object();
        p["bench"] = spec.to_json();
        p["input"] = in.to_json();
        p["sim"]   = gen_sim(g);
        return p;
    }
    throw std::runtime_error("could not generate an admissible plan");
}

/* ======================================================================================================== */
/* C03: residual                                                                                            */
/* ======================================================================================================== */
Value gen_residual(uint64_t seed, const std::string& tier)
{
    return gen_with(seed, 0xC03, 1, 3, tier == "thorough" ? 12000 : 5000, 2000, OP_RES_GIVE, OP_RES_TAKE, 64);
}

void compare_cache(const LevelCache& a, const LevelCache& b, Result& r, const std::string& sig)
{
    auto cmp_std = [&](const std::vector<double>& x, const std::vector<double>& y, const char* name) {
        if (x.size() != y.size()) {
            r.fail(std::string("C03.coarse_cache_size:") + name, sig);
            return;
        }
        for (size_t i = 0; i < x.size(); i++)
            if (std::fabs(x[i] - y[i]) > 4 * EPS * std::max(std::fabs(x[i]), std::fabs(y[i]))) {
                r.fail(std::string("C03.coarse_cache_differs:") + name,
                       fmt("%s[%zu]: coarse-level cache %.17g vs fresh evaluation %.17g; %s", name, i, x[i], y[i],
                           sig.c_str()));
                return;
            }
    };
    auto cmp_vec = [&](const Vector<double>& x, const Vector<double>& y, const char* name) {
        cmp_std(to_std(x), to_std(y), name);
    };
    cmp_std(a.sin_theta(), b.sin_theta(), "sin_theta");
    cmp_std(a.cos_theta(), b.cos_theta(), "cos_theta");
    cmp_std(a.coeff_alpha(), b.coeff_alpha(), "coeff_alpha");
    cmp_std(a.coeff_beta(), b.coeff_beta(), "coeff_beta");
    cmp_vec(a.arr(), b.arr(), "arr");
    cmp_vec(a.att(), b.att(), "att");
    cmp_vec(a.art(), b.art(), "art");
    cmp_vec(a.detDF(), b.detDF(), "detDF");
}

void check_against_ref(const Ref& ref, const Vector<double>& got, const std::vector<double>& want,
                       const std::vector<double>& bnd, const std::string& cls, const std::string& sig, Result& r,
                       const char* metric)
{
    double worst = 0;
    int wi       = -1;
    for (int m = 0; m < ref.A.n; m++) {
        double d = std::fabs(got[ref.A.to_grid[m]] - want[m]);
        if (std::isnan(d))
            d = INFINITY;
        double u = d / (bnd[m] + 1e-300);
        if (u > worst) {
            worst = u;
            wi    = m;
        }
    }
    r.maxim(metric, worst);
    if (worst > 1.0)
        r.fail(cls, fmt("node (i_r=%d,i_theta=%d): got %.17g, reference %.17g, |diff| = %.3g x rounding bound; %s",
                        wi / ref.A.ntheta, wi % ref.A.ntheta, got[ref.A.to_grid[wi]], want[wi], worst, sig.c_str()));
}

void run_residual(const Value& plan, Result& r)
{
    BenchSpec spec = BenchSpec::from_json(plan.at("bench"));
    OpInput in     = OpInput::from_json(plan.at("input"));
    Bench b;
    b.build(spec);
    std::unique_ptr<Bench> holder;
    Bench& bf          = full_cache_bench(b, holder);
    const PolarGrid& g = b.grid(in.level);
    const std::string tag = context_tag(g, spec.dirbc, OP_RES_GIVE);
    r.race_tag            = tag;
    r.signature           = fmt("residual L%d %s", in.level, spec.str().c_str());
    r.nontrivial          = true;
    r.probe(fmt("level_%d", in.level));
    r.probe(fmt("cache_%d%d", (int)spec.cache_coeff, (int)spec.cache_geo));
    if (g.numberSmootherCircles() == 0)
        r.probe("all_radial_split");
    if (g.lengthSmootherRadial() == 0)
        r.probe("all_circle_split");
    Ref ref;
    ref.build(b, in.level);
    if (ref.A.asymmetry() > 64 * EPS)
        r.fail("model.asymmetric", fmt("reference operator asymmetry %g", ref.A.asymmetry()));
    Vector<double> x, f;
    std::vector<Vector<double>> og, ot, ogf;
    {
        SimRun sr(plan.at("sim"), r);
        exec_op(b, in, og, &x, &f);
        OpInput it = in;
        it.op      = OP_RES_TAKE;
        exec_op(bf, it, ot);
        if (&bf != &b)
            exec_op(bf, in, ogf);
    }
    std::vector<double> xm, fm;
    ref.A.to_model(x, xm);
    ref.A.to_model(f, fm);
    std::vector<double> want = ref.residual(xm, fm);
    std::vector<double> bnd  = ref.bound(xm, fm);
    check_against_ref(ref, og[0], want, bnd, "C03.give_differs_from_reference" + tag, r.signature, r, "give_units");
    check_against_ref(ref, ot[0], want, bnd, "C03.take_differs_from_reference", r.signature, r, "take_units");
    if (!ogf.empty())
        check_against_ref(ref, ogf[0], want, bnd, "C03.give_cached_differs_from_reference" + tag, r.signature, r,
                          "give_cached_units");
    // coarse-level caches equal a fresh evaluation at the coarse nodes
    if (in.level > 0) {
        r.probe("coarse_cache_compared");
        LevelCache fresh(g, *b.prob.coeff, *b.prob.geometry, spec.cache_coeff, spec.cache_geo);
        compare_cache(b.levels[in.level].cache(), fresh, r, r.signature);
    }
    // explicit rows: columns of the real operator, probed with unit vectors
    {
        const int n = g.numberOfNodes();
        Rng g2(sim::mix(in.seed_x, 0xC01C));
        std::vector<int> cols;
        if (n <= 350)
            for (int k = 0; k < n; k++)
                cols.push_back(k);
        else {
            for (int q = 0; q < 16; q++)
                cols.push_back((int)g2.below((uint64_t)n));
            // always include the special node classes
            cols.push_back(ref.A.id(0, 0));
            cols.push_back(ref.A.id(1, 1));
            cols.push_back(ref.A.id(ref.A.nr - 2, ref.A.ntheta - 1));
            cols.push_back(ref.A.id(ref.A.nr - 1, 0));
            cols.push_back(ref.A.id(std::max(0, g.numberSmootherCircles() - 1), 0));
            cols.push_back(ref.A.id(std::min(ref.A.nr - 1, g.numberSmootherCircles()), ref.A.ntheta / 2));
        }
        ResidualGive rg(g, b.levels[in.level].cache(), *b.prob.geometry, *b.prob.coeff, spec.dirbc, spec.T);
        ResidualTake rt(bf.grid(in.level), bf.levels[in.level].cache(), *bf.prob.geometry, *bf.prob.coeff, spec.dirbc,
                        spec.T);
        Vector<double> e(n), zero(n), col(n);
        assign(zero, 0.0);
        SimRun sr(canonical_sim(), r);
        for (int variant = 0; variant < 2; variant++)
            for (int km : cols) {
                assign(e, 0.0);
                e[ref.A.to_grid[km]] = 1.0;
                if (variant == 0)
                    rg.computeResidual(col, zero, e);
                else
                    rt.computeResidual(col, zero, e);
                r.probe("columns_probed");
                // expected column of A_ref
                for (int m = 0; m < ref.A.n; m++) {
                    double a = 0, aa = 0;
                    const model::SparseRow& row = ref.A.rows[m];
                    for (size_t q = 0; q < row.col.size(); q++)
                        if (row.col[q] == km) {
                            a  = row.val[q];
                            aa = row.aval[q];
                        }
                    double got = -col[ref.A.to_grid[m]];
                    if (std::fabs(got - a) > 4 * MB * EPS * aa) {
                        const char* what = ref.A.dirichlet[m] ? "dirichlet_row_not_identity"
                                           : (a == 0.0 ? "entry_outside_stencil" : "stencil_entry_differs");
                        r.fail(fmt("C03.%s:%s%s", what, variant == 0 ? "give" : "take", variant == 0 ? tag.c_str() : ""),
                               fmt("A[(%d,%d),(%d,%d)] = %.17g, reference %.17g; %s", m / ref.A.ntheta,
                                   m % ref.A.ntheta, km / ref.A.ntheta, km % ref.A.ntheta, got, a, r.signature.c_str()));
                        break;
                    }
                }
            }
    }
}

/* ======================================================================================================== */
/* C04: direct solver                                                                                       */
/* ======================================================================================================== */
Value gen_ds(uint64_t seed, const std::string& tier)
{
    Value p = gen_with(seed, 0xC04, 1, 2, tier == "thorough" ? 5000 : 2200, 900, OP_DS_GIVE, OP_DS_TAKE, 256);
    p["input"]["nsweeps"] = 2;
    return p;
}

void run_ds(const Value& plan, Result& r)
{
    BenchSpec spec = BenchSpec::from_json(plan.at("bench"));
    OpInput in     = OpInput::from_json(plan.at("input"));
    Bench b;
    b.build(spec);
    std::unique_ptr<Bench> holder;
    Bench& bf             = full_cache_bench(b, holder);
    const PolarGrid& g    = b.grid(in.level);
    const std::string tag = context_tag(g, spec.dirbc, OP_DS_GIVE);
    r.race_tag            = tag;
    r.signature           = fmt("directsolver L%d %s", in.level, spec.str().c_str());
    r.nontrivial          = true;
    if (spec.T > std::max(g.nr(), g.ntheta()))
        r.probe("T_gt_lines");
    if (g.nr() == 5 || g.ntheta() == 4)
        r.probe("minimal_grid");
    r.probe(spec.dirbc ? "dirbc" : "across_origin");
    Ref ref;
    ref.build(b, in.level);
    Vector<double> x, f;
    std::vector<Vector<double>> og, ot, og2;
    OpInput it = in;
    it.op      = OP_DS_TAKE;
    {
        SimRun sr(plan.at("sim"), r);
        exec_op(b, in, og, &x, &f);
        exec_op(bf, it, ot);
    }
    {
        // same input, another schedule, full teams: the assembled factors (hence the solution) must be bit-identical
        Value s2          = plan.at("sim");
        s2["shortfall_p"] = 0.0;
        Value s3          = s2;
        s3["sched_seed"]  = (long long)(sim::mix(s2.at("sched_seed").as_u64(), 9) >> 1);
        std::vector<Vector<double>> a1, a2;
        {
            SimRun sr(s2, r);
            exec_op(b, in, a1);
        }
        {
            SimRun sr(s3, r);
            exec_op(b, in, a2);
        }
        int idx = -1;
        if (!bit_equal(a1[0], a2[0], &idx))
            r.fail("C04.assembly_schedule_dependent" + tag,
                   fmt("two schedules give different solution bits at index %d: %.17g vs %.17g; %s", idx, a1[0][idx],
                       a2[0][idx], r.signature.c_str()));
    }
    const int n = ref.A.n;
    for (int s = 0; s < (int)og.size(); s++) {
        Vector<double> rhs = (s == 0) ? f : rand_vector(n, in.seed_f + 77 * s, in.kind_f, in.scale_f, &g);
        std::vector<double> fm, xg, xt;
        ref.A.to_model(rhs, fm);
        ref.A.to_model(og[s], xg);
        ref.A.to_model(ot[s], xt);
        auto check = [&](const std::vector<double>& xs, const char* name, const std::string& t) {
            std::vector<double> res = ref.residual(xs, fm), ax;
            ref.A.apply_abs(xs, ax);
            double allowed = 8.0 * n * EPS * (inf_norm(ax) + inf_norm(fm));
            double got     = inf_norm(res);
            for (double v : xs)
                if (!std::isfinite(v))
                    got = INFINITY;
            r.maxim(std::string("backward_error_units:") + name, got / (allowed + 1e-300));
            if (!(got <= allowed))
                r.fail(fmt("C04.residual_not_zero:%s%s", name, t.c_str()),
                       fmt("||b - A x||_inf = %.3e > %.3e (n=%d); %s", got, allowed, n, r.signature.c_str()));
            return allowed;
        };
        double al = check(xg, "give", tag);
        check(xt, "take", "");
        std::vector<double> d(n), ad;
        for (int m = 0; m < n; m++)
            d[m] = xg[m] - xt[m];
        ref.A.apply(d, ad);
        if (!(inf_norm(ad) <= 2 * al))
            r.fail("C04.give_take_differ" + tag,
                   fmt("||A (x_give - x_take)||_inf = %.3e > %.3e; %s", inf_norm(ad), 2 * al, r.signature.c_str()));
        // the independent *real* residual operator of the other strategy
        if (s == 0) {
            ResidualTake rt(bf.grid(in.level), bf.levels[in.level].cache(), *bf.prob.geometry, *bf.prob.coeff,
                            spec.dirbc, 1);
            Vector<double> res(n);
            {
                SimRun sr(canonical_sim(), r);
                rt.computeResidual(res, rhs, og[0]);
            }
            if (!(max_abs(res) <= 2 * al))
                r.fail("C04.real_residual_not_zero" + tag, fmt("ResidualTake of the give solution: %.3e > %.3e; %s",
                                                               max_abs(res), 2 * al, r.signature.c_str()));
        }
    }
}

/* ======================================================================================================== */
/* C05: symmetric positive definite                                                                         */
/* ======================================================================================================== */
Value gen_spd(uint64_t seed, const std::string& tier)
{
    return gen_with(seed, 0xC05, 1, 3, tier == "thorough" ? 12000 : 5000, 1500, OP_RES_GIVE, OP_RES_TAKE, 64, false);
}

void run_spd(const Value& plan, Result& r)
{
    BenchSpec spec = BenchSpec::from_json(plan.at("bench"));
    OpInput in     = OpInput::from_json(plan.at("input"));
    Bench b;
    b.build(spec);
    std::unique_ptr<Bench> holder;
    Bench& bf             = full_cache_bench(b, holder);
    const PolarGrid& g    = b.grid(in.level);
    const std::string tag = context_tag(g, spec.dirbc, OP_RES_GIVE);
    r.race_tag            = tag;
    r.signature           = fmt("spd L%d %s", in.level, spec.str().c_str());
    r.nontrivial          = true;
    Ref ref;
    ref.build(b, in.level);
    const int n = ref.A.n;
    Vector<double> x = rand_vector(n, in.seed_x, in.kind_x, in.scale_x, &g);
    Vector<double> y = rand_vector(n, in.seed_f, in.kind_f, in.scale_f, &g);
    for (int m = 0; m < n; m++)
        if (ref.A.dirichlet[m]) {
            x[ref.A.to_grid[m]] = 0.0;
            y[ref.A.to_grid[m]] = 0.0;
        }
    Vector<double> zero(n);
    assign(zero, 0.0);
    ResidualGive rg(g, b.levels[in.level].cache(), *b.prob.geometry, *b.prob.coeff, spec.dirbc, spec.T);
    ResidualTake rt(bf.grid(in.level), bf.levels[in.level].cache(), *bf.prob.geometry, *bf.prob.coeff, spec.dirbc,
                    spec.T);
    Vector<double> axg(n), ayg(n), axt(n), ayt(n);
    {
        SimRun sr(plan.at("sim"), r);
        rg.computeResidual(axg, zero, x);
        rg.computeResidual(ayg, zero, y);
        rt.computeResidual(axt, zero, x);
        rt.computeResidual(ayt, zero, y);
    }
    std::vector<double> xm, ym, z(n, 0.0);
    ref.A.to_model(x, xm);
    ref.A.to_model(y, ym);
    std::vector<double> bx = ref.bound(xm, z), by = ref.bound(ym, z);
    auto judge = [&](const Vector<double>& ax, const Vector<double>& ay, const char* name, const std::string& t) {
        long double axy = 0, xay = 0, axx = 0, tol = 0, tolx = 0;
        for (int m = 0; m < n; m++) {
            if (ref.A.dirichlet[m])
                continue; // inner products over the non-Dirichlet unknowns
            const int q = ref.A.to_grid[m];
            axy += (long double)(-ax[q]) * y[q];
            xay += (long double)x[q] * (-ay[q]);
            axx += (long double)(-ax[q]) * x[q];
            tol += (long double)bx[m] * std::fabs(y[q]) + (long double)std::fabs(x[q]) * by[m];
            tolx += (long double)bx[m] * std::fabs(x[q]);
        }
        r.maxim(std::string("asymmetry_units:") + name, (double)(std::fabs(axy - xay) / (tol + 1e-300L)));
        if (!(std::fabs(axy - xay) <= tol))
            r.fail(fmt("C05.not_symmetric:%s%s", name, t.c_str()),
                   fmt("<Ax,y>=%.17Lg <x,Ay>=%.17Lg diff %.3Lg > bound %.3Lg; %s", axy, xay, std::fabs(axy - xay), tol,
                       r.signature.c_str()));
        bool nonzero = false;
        for (int m = 0; m < n; m++)
            if (xm[m] != 0)
                nonzero = true;
        if (nonzero && !(axx > tolx))
            r.fail(fmt("C05.not_positive:%s%s", name, t.c_str()),
                   fmt("<Ax,x>=%.6Lg not above rounding bound %.3Lg; %s", axx, tolx, r.signature.c_str()));
    };
    judge(axg, ayg, "give", tag);
    judge(axt, ayt, "take", "");
    // line blocks of the reference operator are SPD (Cholesky succeeds): circles and radial lines
    {
        auto chol_ok = [&](const std::vector<int>& nodes) {
            int k = (int)nodes.size();
            std::vector<long double> M((size_t)k * k, 0.0L);
            for (int a = 0; a < k; a++) {
                const model::SparseRow& row = ref.A.rows[nodes[a]];
                for (size_t q = 0; q < row.col.size(); q++)
                    for (int c = 0; c < k; c++)
                        if (nodes[c] == row.col[q])
                            M[(size_t)a * k + c] = row.val[q];
            }
            for (int j = 0; j < k; j++) {
                long double d = M[(size_t)j * k + j];
                for (int p = 0; p < j; p++)
                    d -= M[(size_t)j * k + p] * M[(size_t)j * k + p];
                if (!(d > 0))
                    return false;
                M[(size_t)j * k + j] = std::sqrt(d);
                for (int i = j + 1; i < k; i++) {
                    long double s = M[(size_t)i * k + j];
                    for (int p = 0; p < j; p++)
                        s -= M[(size_t)i * k + p] * M[(size_t)j * k + p];
                    M[(size_t)i * k + j] = s / M[(size_t)j * k + j];
                }
            }
            return true;
        };
        Rng g2(sim::mix(in.seed_x, 5));
        for (int q = 0; q < 3; q++) {
            int i = (int)g2.below((uint64_t)(ref.A.nr - 1));
            if (i == 0 && spec.dirbc)
                i = 1;
            std::vector<int> nodes;
            if (ref.A.ntheta <= 96) {
                for (int j = 0; j < ref.A.ntheta; j++)
                    nodes.push_back(ref.A.id(i, j));
                if (!chol_ok(nodes))
                    r.fail("C05.circle_block_not_spd", fmt("circle i_r=%d; %s", i, r.signature.c_str()));
            }
            int j = (int)g2.below((uint64_t)ref.A.ntheta);
            nodes.clear();
            for (int ii = (spec.dirbc ? 1 : 0); ii < ref.A.nr - 1 && (int)nodes.size() < 96; ii++)
                nodes.push_back(ref.A.id(ii, j));
            if (!chol_ok(nodes))
                r.fail("C05.radial_block_not_spd", fmt("radial line i_theta=%d; %s", j, r.signature.c_str()));
            r.probe("line_blocks_checked", 2);
        }
    }
    // the line blocks the LIBRARY's smoothers factorise: with x = 0 and rhs = e_q (q on the line) one sweep returns, on
    // that line, column q of the inverse of the block it factorised (every other line sees zero data before it, and
    // no later line writes this one).  The inverse restricted to the line's non-Dirichlet unknowns (for the extrapolated
    // smoothers: its fine-only nodes) must be symmetric and positive definite.
    if (n <= 1600) {
        Rng g3(sim::mix(in.seed_x, 9));
        const int which  = (int)g3.below(4); // give / take / extrapolated give / extrapolated take
        const bool ex    = which >= 2, give = which % 2 == 0;
        const int op     = ex ? (give ? OP_EXSM_GIVE : OP_EXSM_TAKE) : (give ? OP_SM_GIVE : OP_SM_TAKE);
        const int nc     = g.numberSmootherCircles();
        std::string why;
        if (op_admissible(b, op, in.level, &why) && (!ex || in.level == 0) && tag.empty()) {
            // a circle (biased to the first / last ones of the section) or a radial line
            const bool circle = nc > 0 && g3.chance(0.6);
            std::vector<std::pair<int, int>> line; // (i_r, i_theta)
            if (circle) {
                static const int pick[] = {0, 1, -1, -2, -3};
                int c = pick[g3.below(5)];
                int i = c >= 0 ? std::min(c, nc - 1) : std::max(0, nc + c);
                if (g3.chance(0.25))
                    i = (int)g3.below((uint64_t)nc);
                for (int j = 0; j < g.ntheta(); j++)
                    line.push_back({i, j});
            }
            else {
                int j = (int)g3.below((uint64_t)g.ntheta());
                for (int i = nc; i < g.nr(); i++)
                    line.push_back({i, j});
            }
            std::vector<std::pair<int, int>> idx;
            for (auto& q : line) {
                const bool dir  = q.first == g.nr() - 1 || (q.first == 0 && spec.dirbc);
                const bool coarse_node = q.first % 2 == 0 && q.second % 2 == 0;
                if (!dir && !(ex && coarse_node))
                    idx.push_back(q);
            }
            const int k = (int)idx.size();
            if (k >= 1 && k <= 72) {
                std::vector<long double> Binv((size_t)k * k, 0.0L);
                Vector<double> xx(n), ff(n), tmp(n);
                Level& lev = *b.levels[in.level].level;
                {
                    SimRun sr(plan.at("sim"), r);
                    std::unique_ptr<SmootherGive> sg;
                    std::unique_ptr<SmootherTake> st;
                    std::unique_ptr<ExtrapolatedSmootherGive> eg;
                    std::unique_ptr<ExtrapolatedSmootherTake> et;
                    if (which == 0)
                        sg = std::make_unique<SmootherGive>(g, lev.levelCache(), *b.prob.geometry, *b.prob.coeff, spec.dirbc, spec.T);
                    else if (which == 1)
                        st = std::make_unique<SmootherTake>(bf.grid(in.level), bf.levels[in.level].cache(), *bf.prob.geometry,
                                                            *bf.prob.coeff, spec.dirbc, spec.T);
                    else if (which == 2)
                        eg = std::make_unique<ExtrapolatedSmootherGive>(g, lev.levelCache(), *b.prob.geometry, *b.prob.coeff,
                                                                        spec.dirbc, spec.T);
                    else
                        et = std::make_unique<ExtrapolatedSmootherTake>(bf.grid(in.level), bf.levels[in.level].cache(),
                                                                        *bf.prob.geometry, *bf.prob.coeff, spec.dirbc, spec.T);
                    for (int c = 0; c < k; c++) {
                        assign(xx, 0.0);
                        assign(ff, 0.0);
                        fill_junk(tmp, 3, 1);
                        ff[g.index(idx[c].first, idx[c].second)] = 1.0;
                        if (sg)
                            sg->smoothing(xx, ff, tmp);
                        else if (st)
                            st->smoothing(xx, ff, tmp);
                        else if (eg)
                            eg->extrapolatedSmoothing(xx, ff, tmp);
                        else
                            et->extrapolatedSmoothing(xx, ff, tmp);
                        for (int a = 0; a < k; a++)
                            Binv[(size_t)a * k + c] = xx[g.index(idx[a].first, idx[a].second)];
                    }
                }
                static const char* sname[] = {"smoother_give", "smoother_take", "exsmoother_give", "exsmoother_take"};
                const std::string where = fmt("%s %s %d (%d unknowns); %s", sname[which], circle ? "circle i_r =" : "radial line i_theta =",
                                              circle ? line[0].first : line[0].second, k, r.signature.c_str());
                long double mx = 0, asym = 0;
                bool finite    = true;
                for (int a = 0; a < k; a++)
                    for (int c = 0; c < k; c++) {
                        finite = finite && std::isfinite((double)Binv[(size_t)a * k + c]);
                        mx     = std::max(mx, std::fabs(Binv[(size_t)a * k + c]));
                        asym   = std::max(asym, std::fabs(Binv[(size_t)a * k + c] - Binv[(size_t)c * k + a]));
                    }
                r.probe(std::string("factorised_block_checked:") + sname[which]);
                r.probe(circle ? "factorised_circle_block" : "factorised_radial_block");
                if (!finite)
                    r.fail(fmt("C05.factorised_block_not_finite:%s", sname[which]), where);
                else {
                    r.maxim("factorised_block_asymmetry_rel", (double)(asym / (mx + 1e-300L)));
                    if (asym > 1e-7L * mx)
                        r.fail(fmt("C05.factorised_block_not_symmetric:%s", sname[which]),
                               fmt("inverse block asymmetry %.3Lg of %.3Lg; %s", asym, mx, where.c_str()));
                    // Cholesky of the symmetrised inverse
                    std::vector<long double> M((size_t)k * k);
                    for (int a = 0; a < k; a++)
                        for (int c = 0; c < k; c++)
                            M[(size_t)a * k + c] = 0.5L * (Binv[(size_t)a * k + c] + Binv[(size_t)c * k + a]);
                    bool pd = true;
                    long double worst = 0;
                    for (int j = 0; j < k && pd; j++) {
                        long double d = M[(size_t)j * k + j];
                        for (int p2 = 0; p2 < j; p2++)
                            d -= M[(size_t)j * k + p2] * M[(size_t)j * k + p2];
                        if (!(d > 0)) {
                            pd    = false;
                            worst = d;
                            break;
                        }
                        M[(size_t)j * k + j] = std::sqrt(d);
                        for (int i = j + 1; i < k; i++) {
                            long double sacc = M[(size_t)i * k + j];
                            for (int p2 = 0; p2 < j; p2++)
                                sacc -= M[(size_t)i * k + p2] * M[(size_t)j * k + p2];
                            M[(size_t)i * k + j] = sacc / M[(size_t)j * k + j];
                        }
                    }
                    if (!pd)
                        r.fail(fmt("C05.factorised_block_not_positive_definite:%s", sname[which]),
                               fmt("Cholesky pivot %.3Lg (largest entry %.3Lg); %s", worst, mx, where.c_str()));
                }
            }
        }
    }
}

/* ======================================================================================================== */
/* C06 / C07: smoothers                                                                                     */
/* ======================================================================================================== */
Value gen_smoother_common(uint64_t seed, const std::string& tier, bool extrapolated)
{
    Value p = gen_with(seed, extrapolated ? 0xC07 : 0xC06, 1, 2, tier == "thorough" ? 2500 : 1800, 900,
                       extrapolated ? OP_EXSM_GIVE : OP_SM_GIVE, extrapolated ? OP_EXSM_TAKE : OP_SM_TAKE, 64);
    Rng g(sim::mix(seed, 0x5eed));
    p["input"]["nsweeps"] = g.range(1, 4);
    if (extrapolated)
        p["input"]["level"] = 0; // finest level only
    return p;
}
Value gen_smoother(uint64_t seed, const std::string& tier) { return gen_smoother_common(seed, tier, false); }
Value gen_exsmoother(uint64_t seed, const std::string& tier) { return gen_smoother_common(seed, tier, true); }

// max over the nodes selected by `sel` of |res_i| / bound_i ; returns units
template <class Sel>
double residual_units(const Ref& ref, const std::vector<double>& res, const std::vector<double>& bnd, Sel sel,
                      int* worst_node = nullptr)
{
    double w = 0;
    for (int i = 0; i < ref.A.nr; i++)
        for (int j = 0; j < ref.A.ntheta; j++) {
            if (!sel(i, j))
                continue;
            int m    = ref.A.id(i, j);
            double u = std::fabs(res[m]) / (bnd[m] + 1e-300);
            if (std::isnan(u))
                u = INFINITY;
            if (u > w) {
                w = u;
                if (worst_node)
                    *worst_node = m;
            }
        }
    return w;
}

void run_smoother_common(const Value& plan, Result& r, bool extrapolated)
{
    const char* P  = extrapolated ? "C07" : "C06";
    BenchSpec spec = BenchSpec::from_json(plan.at("bench"));
    OpInput in     = OpInput::from_json(plan.at("input"));
    if (!extrapolated && in.op != OP_SM_GIVE)
        in.op = OP_SM_GIVE;
    if (extrapolated)
        in.op = OP_EXSM_GIVE;
    Bench b;
    b.build(spec);
    if (!op_admissible(b, in.op, in.level)) {
        r.signature = "inadmissible";
        return;
    }
    std::unique_ptr<Bench> holder;
    Bench& bf          = full_cache_bench(b, holder);
    const PolarGrid& g = b.grid(in.level);
    const int ncirc    = g.numberSmootherCircles();
    r.signature        = fmt("%s L%d sweeps=%d circles=%d %s", extrapolated ? "exsmoother" : "smoother", in.level,
                      in.nsweeps, ncirc, spec.str().c_str());
    r.nontrivial       = true;
    r.probe(fmt("circles_parity_%d", ncirc % 2));
    r.probe(spec.dirbc ? "dirbc" : "across_origin");
    r.probe(fmt("sweeps_%d", in.nsweeps));
    Ref ref;
    ref.build(b, in.level);
    const int n = ref.A.n;
    Vector<double> x, f;
    std::vector<Vector<double>> og, ot;
    OpInput it = in;
    it.op      = extrapolated ? OP_EXSM_TAKE : OP_SM_TAKE;
    {
        SimRun sr(plan.at("sim"), r);
        exec_op(b, in, og, &x, &f);
        exec_op(bf, it, ot);
    }
    std::vector<double> fm, xin;
    ref.A.to_model(f, fm);
    ref.A.to_model(x, xin);
    auto is_coarse = [&](int i, int j) { return (i % 2 == 0) && (j % 2 == 0); };
    // per sweep invariants
    for (int s = 0; s < (int)og.size(); s++) {
        for (int variant = 0; variant < 2; variant++) {
            const Vector<double>& out = variant == 0 ? og[s] : ot[s];
            const char* name          = variant == 0 ? "give" : "take";
            if (!all_finite(out) && all_finite(x) && all_finite(f)) {
                r.fail(fmt("%s.nonfinite:%s", P, name), r.signature);
                continue;
            }
            std::vector<double> xo;
            ref.A.to_model(out, xo);
            std::vector<double> res = ref.residual(xo, fm);
            std::vector<double> bnd = ref.bound(xo, fm);
            // (a) Dirichlet nodes carry the boundary data
            for (int m = 0; m < n; m++)
                if (ref.A.dirichlet[m] && std::fabs(xo[m] - fm[m]) > 4 * EPS * std::fabs(fm[m])) {
                    if (extrapolated && is_coarse(m / ref.A.ntheta, m % ref.A.ntheta))
                        continue; // coarse nodes are never moved by the extrapolated smoother
                    r.fail(fmt("%s.dirichlet_not_set:%s", P, name),
                           fmt("node (%d,%d): %.17g, boundary data %.17g; %s", m / ref.A.ntheta, m % ref.A.ntheta, xo[m],
                               fm[m], r.signature.c_str()));
                    break;
                }
            // (b) residual vanishes on the colour updated last: one parity class of the radial lines, and one parity
            // class of the circles (the one not adjacent to the radial section).  Which parity is "white" is an
            // implementation detail; the statement only says "the colour updated last".
            auto circle_sel = [&](int par) {
                return [=](int i, int j) {
                    if (i >= ncirc || ((ncirc - 1 - i) % 2 != par))
                        return false;
                    if (ref.A.dirichlet[ref.A.id(i, j)])
                        return false;
                    return extrapolated ? !is_coarse(i, j) : true;
                };
            };
            auto radial_sel = [&](int par) {
                return [=](int i, int j) {
                    if (i < ncirc || (j % 2 != par))
                        return false;
                    if (ref.A.dirichlet[ref.A.id(i, j)])
                        return false;
                    return extrapolated ? !is_coarse(i, j) : true;
                };
            };
            int wn = -1;
            double uc = std::min(residual_units(ref, res, bnd, circle_sel(0)), residual_units(ref, res, bnd, circle_sel(1), &wn));
            double ur = std::min(residual_units(ref, res, bnd, radial_sel(0)), residual_units(ref, res, bnd, radial_sel(1)));
            r.maxim(fmt("last_colour_circle_units:%s", name), uc);
            r.maxim(fmt("last_colour_radial_units:%s", name), ur);
            // circle lines are solved by Sherman-Morrison (cyclic tridiagonal): not backward stable in the strict sense, a
            // few units above the a-priori bound occur on strongly graded grids next to the origin (6.0 seen once in
            // 240 000 runs; typical 0.01; a defect gives > 1e6).  Radial lines (LDL^T) keep the tight allowance.
            if (uc > 64.0)
                r.fail(fmt("%s.residual_on_last_circle_colour:%s", P, name),
                       fmt("sweep %d: residual on neither parity class of circles vanishes (%.3g x bound); %s", s + 1,
                           uc, r.signature.c_str()));
            if (ur > 4.0)
                r.fail(fmt("%s.residual_on_last_radial_colour:%s", P, name),
                       fmt("sweep %d: residual on neither parity class of radial lines vanishes (%.3g x bound); %s",
                           s + 1, ur, r.signature.c_str()));
            // (c) extrapolated: coarse nodes bit-for-bit unchanged (compared as bytes)
            if (extrapolated) {
                for (int i = 0; i < ref.A.nr; i += 2)
                    for (int j = 0; j < ref.A.ntheta; j += 2) {
                        int q = ref.A.to_grid[ref.A.id(i, j)];
                        if (std::memcmp(&out[q], &x[q], sizeof(double)) != 0) {
                            r.fail(fmt("C07.coarse_node_moved:%s", name),
                                   fmt("sweep %d: coarse node (%d,%d) changed from %.17g to %.17g; %s", s + 1, i, j, x[q],
                                       out[q], r.signature.c_str()));
                            i = ref.A.nr;
                            break;
                        }
                    }
                r.probe("coarse_nodes_compared");
            }
        }
        // (d) give == take in residual space
        {
            std::vector<double> d(n), ad, xo, ax;
            ref.A.to_model(og[s], xo);
            for (int m = 0; m < n; m++)
                d[m] = og[s][ref.A.to_grid[m]] - ot[s][ref.A.to_grid[m]];
            ref.A.apply(d, ad);
            std::vector<double> bnd = ref.bound(xo, fm);
            double allowed          = 16.0 * (s + 1) * inf_norm(bnd);
            r.maxim("give_take_units", inf_norm(ad) / (allowed + 1e-300));
            if (!(inf_norm(ad) <= allowed))
                r.fail(fmt("%s.give_take_differ", P), fmt("sweep %d: ||A(x_give-x_take)||_inf = %.3e > %.3e; %s", s + 1,
                                                          inf_norm(ad), allowed, r.signature.c_str()));
        }
    }
    // (e) history: the k-th sweep of a used object equals the first sweep of a fresh object on the same input
    if (in.nsweeps >= 2) {
        OpInput one = in;
        one.nsweeps = 1;
        // input of the last sweep = output of the previous one: run a fresh object on it
        const Vector<double>& prev = og[in.nsweeps - 2];
        Level& lev                 = *b.levels[in.level].level;
        Vector<double> cur = prev, temp(n);
        fill_junk(temp, 99, 1);
        {
            Value s0          = plan.at("sim");
            s0["shortfall_p"] = 0.0;
            SimRun sr(s0, r);
            if (!extrapolated) {
                SmootherGive sm(g, lev.levelCache(), *b.prob.geometry, *b.prob.coeff, spec.dirbc, spec.T);
                sm.smoothing(cur, f, temp);
            }
            else {
                ExtrapolatedSmootherGive sm(g, lev.levelCache(), *b.prob.geometry, *b.prob.coeff, spec.dirbc, spec.T);
                sm.extrapolatedSmoothing(cur, f, temp);
            }
        }
        r.probe("history_compared");
        std::vector<double> d(n), ad, xo;
        ref.A.to_model(cur, xo);
        for (int m = 0; m < n; m++)
            d[m] = cur[ref.A.to_grid[m]] - og[in.nsweeps - 1][ref.A.to_grid[m]];
        ref.A.apply(d, ad);
        double allowed = 16.0 * inf_norm(ref.bound(xo, fm));
        if (!(inf_norm(ad) <= allowed))
            r.fail(fmt("%s.sweep_depends_on_object_history", P),
                   fmt("sweep %d of a used object differs from the first sweep of a fresh object: ||A d||_inf = %.3e > "
                       "%.3e; %s",
                       in.nsweeps, inf_norm(ad), allowed, r.signature.c_str()));
    }
    // (f) fixed point and energy norm (need the exact discrete solution: small grids)
    if (n <= 2600) {
        std::vector<double> xs;
        if (!ref.A.solve(fm, xs)) {
            r.fail("model.singular", r.signature);
            return;
        }
        r.probe("fixed_point_checked");
        Vector<double> xstar(n), temp(n);
        ref.A.to_lib(xs, xstar);
        fill_junk(temp, 7, 1);
        Level& lev = *b.levels[in.level].level;
        Vector<double> cg = xstar, ct = xstar;
        {
            SimRun sr(plan.at("sim"), r);
            if (!extrapolated) {
                SmootherGive sg(g, lev.levelCache(), *b.prob.geometry, *b.prob.coeff, spec.dirbc, spec.T);
                sg.smoothing(cg, f, temp);
                SmootherTake st(bf.grid(in.level), bf.levels[in.level].cache(), *bf.prob.geometry, *bf.prob.coeff,
                                spec.dirbc, spec.T);
                st.smoothing(ct, f, temp);
            }
            else {
                ExtrapolatedSmootherGive sg(g, lev.levelCache(), *b.prob.geometry, *b.prob.coeff, spec.dirbc, spec.T);
                sg.extrapolatedSmoothing(cg, f, temp);
                ExtrapolatedSmootherTake st(bf.grid(in.level), bf.levels[in.level].cache(), *bf.prob.geometry,
                                            *bf.prob.coeff, spec.dirbc, spec.T);
                st.extrapolatedSmoothing(ct, f, temp);
            }
        }
        for (int variant = 0; variant < 2; variant++) {
            const Vector<double>& out = variant == 0 ? cg : ct;
            std::vector<double> xo;
            ref.A.to_model(out, xo);
            std::vector<double> res = ref.residual(xo, fm), bnd = ref.bound(xs, fm);
            double u = inf_norm(res) / (inf_norm(bnd) + 1e-300);
            r.maxim(fmt("fixed_point_units:%s", variant ? "take" : "give"), u);
            if (getenv("GMGSIM_DEBUG_FP")) {
                std::vector<double> r0 = ref.residual(xs, fm);
                fprintf(stderr, "x* residual units %.3g\n", inf_norm(r0) / (inf_norm(bnd) + 1e-300));
                for (int i = 0; i < ref.A.nr; i++) {
                    double md = 0, mx = 0, mr = 0, mb = 0;
                    for (int j = 0; j < ref.A.ntheta; j++) {
                        int m = i * ref.A.ntheta + j;
                        md    = std::max(md, std::fabs(xo[m] - xs[m]));
                        mx    = std::max(mx, std::fabs(xs[m]));
                        mr    = std::max(mr, std::fabs(res[m]));
                        mb    = std::max(mb, std::fabs(bnd[m]));
                    }
                    fprintf(stderr, "i_r=%d max|dx|=%.3e max|x*|=%.3e max|res|=%.3e max bnd=%.3e\n", i, md, mx, mr, mb);
                }
            }
            if (!(u <= 16.0)) {
                int worst = 0;
                for (int m = 0; m < n; m++)
                    if (std::fabs(res[m]) > std::fabs(res[worst]))
                        worst = m;
                r.fail(fmt("%s.exact_solution_not_fixed_point:%s", P, variant ? "take" : "give"),
                       fmt("sweep started at the discrete solution leaves residual %.3g x bound (worst row: i_r=%d "
                           "i_theta=%d residual %.3e, x*=%.6e, after sweep %.6e, rhs %.3e, |b|-bound %.3e); %s",
                           u, worst / ref.A.ntheta, worst % ref.A.ntheta, res[worst], xs[worst], xo[worst], fm[worst],
                           inf_norm(bnd), r.signature.c_str()));
            }
        }
        if (!extrapolated) {
            // energy norm of the error never increases once the boundary values carry the data
            Vector<double> x0 = x;
            for (int m = 0; m < n; m++)
                if (ref.A.dirichlet[m])
                    x0[ref.A.to_grid[m]] = f[ref.A.to_grid[m]];
            Vector<double> x1 = x0;
            {
                SimRun sr(plan.at("sim"), r);
                SmootherGive sg(g, lev.levelCache(), *b.prob.geometry, *b.prob.coeff, spec.dirbc, spec.T);
                sg.smoothing(x1, f, temp);
            }
            std::vector<double> e0(n), e1(n);
            for (int m = 0; m < n; m++) {
                e0[m] = x0[ref.A.to_grid[m]] - xs[m];
                e1[m] = x1[ref.A.to_grid[m]] - xs[m];
            }
            double E0 = ref.A.energy(e0), E1 = ref.A.energy(e1);
            r.probe("energy_checked");
            r.maxim("energy_ratio", E0 > 0 ? E1 / E0 : 0);
            if (all_finite(x1) && E0 > 0 && !(E1 <= E0 * (1 + 1e-9)))
                r.fail("C06.energy_norm_increased",
                       fmt("||e||_A^2 before %.10g after %.10g; %s", E0, E1, r.signature.c_str()));
        }
    }
}
void run_smoother(const Value& plan, Result& r) { run_smoother_common(plan, r, false); }
void run_exsmoother(const Value& plan, Result& r) { run_smoother_common(plan, r, true); }

Registrar r1({"residual", "C03", "fast,trace", gen_residual, run_residual});
Registrar r2({"directsolver", "C04", "fast,trace", gen_ds, run_ds});
Registrar r3({"spd", "C05", "fast,trace", gen_spd, run_spd});
Registrar r4({"smoother", "C06", "fast,trace", gen_smoother, run_smoother});
Registrar r5({"exsmoother", "C07", "fast,trace", gen_exsmoother, run_exsmoother});

} // namespace
