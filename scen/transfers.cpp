// C08 grid transfer operators, C09 (part A) the FMG interpolation operator -- run under the simulator, judged by
// algebraic identities (adjointness, exactness, convexity, injection o P = id, optimised == reference).
#include "opbench.h"

using namespace hs;

namespace {

struct Pair {
    Bench b;
    int level = 0; // fine level of the pair
    const PolarGrid& fine() const { return b.grid(level); }
    const PolarGrid& coarse() const { return b.grid(level + 1); }
};

Value gen_pair(uint64_t seed, const std::string& tier, uint64_t salt)
{
    Rng g(sim::mix(seed, salt));
    for (int attempt = 0; attempt < 80; attempt++) {
        bool big       = g.chance(0.2);
        long max_nodes = is_trace() ? 2500 : 6000;
        if (big)
            max_nodes = 12500;
        Value bs       = gen_bench(g, 2, 4, max_nodes, false, 32);
        BenchSpec spec = BenchSpec::from_json(bs);
        if (big) {
            spec.grid.kind = 1;
            int pw         = 1 << (spec.nlevels - 1);
            int nt         = 4 * pw * g.range(1, 6);
            int nr         = (10001 + nt - 1) / nt;
            nr             = ((nr - 1 + pw - 1) / pw) * pw + 1;
            while ((long)nr * nt <= 10000)
                nr += pw;
            spec.grid.nr     = nr;
            spec.grid.ntheta = nt;
        }
        Bench b;
        try {
            b.build(spec);
        }
        catch (const std::exception&) {
            continue;
        }
        int level = big ? 0 : (int)g.below((uint64_t)(b.levels.size() - 1));
        if (!op_admissible(b, OP_FMG, level))
            continue;
        Value p    = Value::object();
        p["bench"] = spec.to_json();
        p["level"] = level;
        p["seed_x"] = (long long)(g.next() >> 1);
        p["seed_y"] = (long long)(g.next() >> 1);
        p["kind_x"] = g.range(0, 4);
        p["kind_y"] = g.range(0, 4);
        p["sim"]    = gen_sim(g);
        return p;
    }
    throw std::runtime_error("could not generate an admissible plan");
}

long double dotl(const Vector<double>& a, const Vector<double>& b)
{
    long double s = 0;
    for (int i = 0; i < a.size(); i++)
        s += (long double)a[i] * b[i];
    return s;
}
Vector<double> absv(const Vector<double>& a)
{
    Vector<double> r(a.size());
    for (int i = 0; i < a.size(); i++)
        r[i] = std::fabs(a[i]);
    return r;
}

typedef void (Interpolation::*TransferFn)(const Level&, const Level&, Vector<double>&, const Vector<double>&) const;

struct Ops {
    Bench& b;
    int l;
    Level& fine;
    Level& coarse;
    Ops(Bench& bb, int level) : b(bb), l(level), fine(*bb.levels[level].level), coarse(*bb.levels[level + 1].level) {}
    Vector<double> up(TransferFn fn, const Vector<double>& xc)
    {
        Vector<double> r(fine.grid().numberOfNodes());
        fill_junk(r, 11, 1);
        ((*b.interp).*fn)(coarse, fine, r, xc);
        return r;
    }
    Vector<double> down(TransferFn fn, const Vector<double>& xf)
    {
        Vector<double> r(coarse.grid().numberOfNodes());
        fill_junk(r, 12, 1);
        ((*b.interp).*fn)(fine, coarse, r, xf);
        return r;
    }
};

/* ======================================================================================================== */
Value gen_transfer(uint64_t seed, const std::string& tier) { return gen_pair(seed, tier, 0xC08); }

void run_transfer(const Value& plan, Result& r)
{
    BenchSpec spec = BenchSpec::from_json(plan.at("bench"));
    const int l    = (int)plan.at("level").as_int(0);
    Bench b;
    b.build(spec);
    Ops ops(b, l);
    const PolarGrid& fg = b.grid(l);
    const PolarGrid& cg = b.grid(l + 1);
    const bool mid      = midpoint_pair(fg, cg);
    const std::string tag = mid ? "" : "[nonmidpoint_pair]"; // F6
    r.signature = fmt("transfer L%d->%d fine=%dx%d mid=%d %s", l, l + 1, fg.nr(), fg.ntheta(), (int)mid,
                      spec.str().c_str());
    r.nontrivial = true;
    r.probe(mid ? "midpoint_pair" : "nonmidpoint_pair");
    if (fg.numberOfNodes() > 10000)
        r.probe("above_parallel_threshold");
    else
        r.probe("below_parallel_threshold");
    const int nf = fg.numberOfNodes(), nc = cg.numberOfNodes();
    Vector<double> xc = rand_vector(nc, plan.at("seed_x").as_u64(), (int)plan.at("kind_x").as_int(0), 1.0, &cg);
    Vector<double> yf = rand_vector(nf, plan.at("seed_y").as_u64(), (int)plan.at("kind_y").as_int(0), 1.0, &fg);
    Vector<double> Px, P0x, Ex, E0x, Fx, Ry, R0y, ERy, ER0y, Iy, PaX, EaX, RaY, ERaY, IPx, IEx, IFx;
    Vector<double> rc(nc), tc(nc), one(nc);
    for (int i = 0; i < cg.nr(); i++)
        for (int j = 0; j < cg.ntheta(); j++) {
            rc[cg.index(i, j)]  = cg.radius(i);
            tc[cg.index(i, j)]  = cg.theta(j);
            one[cg.index(i, j)] = 1.0;
        }
    Vector<double> Pr, Pt, P1, Er, Et, E1;
    {
        SimRun sr(plan.at("sim"), r);
        Px   = ops.up(&Interpolation::applyProlongation, xc);
        P0x  = ops.up(&Interpolation::applyProlongation0, xc);
        Ex   = ops.up(&Interpolation::applyExtrapolatedProlongation, xc);
        E0x  = ops.up(&Interpolation::applyExtrapolatedProlongation0, xc);
        Ry   = ops.down(&Interpolation::applyRestriction, yf);
        R0y  = ops.down(&Interpolation::applyRestriction0, yf);
        ERy  = ops.down(&Interpolation::applyExtrapolatedRestriction, yf);
        ER0y = ops.down(&Interpolation::applyExtrapolatedRestriction0, yf);
        PaX  = ops.up(&Interpolation::applyProlongation, absv(xc));
        EaX  = ops.up(&Interpolation::applyExtrapolatedProlongation, absv(xc));
        RaY  = ops.down(&Interpolation::applyRestriction, absv(yf));
        ERaY = ops.down(&Interpolation::applyExtrapolatedRestriction, absv(yf));
        IPx  = ops.down(&Interpolation::applyInjection, Px);
        IEx  = ops.down(&Interpolation::applyInjection, Ex);
        Pr   = ops.up(&Interpolation::applyProlongation, rc);
        Pt   = ops.up(&Interpolation::applyProlongation, tc);
        P1   = ops.up(&Interpolation::applyProlongation, one);
        Er   = ops.up(&Interpolation::applyExtrapolatedProlongation, rc);
        Et   = ops.up(&Interpolation::applyExtrapolatedProlongation, tc);
        E1   = ops.up(&Interpolation::applyExtrapolatedProlongation, one);
    }
    // (1) restriction is the transpose of prolongation
    auto adjoint = [&](const Vector<double>& Pxv, const Vector<double>& Ryv, const Vector<double>& Pabs,
                       const Vector<double>& Rabs, const char* name) {
        long double a = dotl(Pxv, yf), c = dotl(xc, Ryv);
        long double tol = 32.0L * EPS * (dotl(Pabs, absv(yf)) + dotl(absv(xc), Rabs)) + 1e-300L;
        r.maxim(std::string("adjoint_units:") + name, (double)(std::fabs(a - c) / tol));
        if (!(std::fabs(a - c) <= tol))
            r.fail(std::string("C08.restriction_not_transpose:") + name,
                   fmt("<P x,y>=%.17Lg <x,R y>=%.17Lg diff %.3Lg > %.3Lg; %s", a, c, std::fabs(a - c), tol,
                       r.signature.c_str()));
    };
    adjoint(Px, Ry, PaX, RaY, "standard");
    adjoint(Ex, ERy, EaX, ERaY, "extrapolated");
    // (2) optimised == reference implementations
    auto same = [&](const Vector<double>& a, const Vector<double>& c, const Vector<double>& scale, const char* name) {
        for (int i = 0; i < a.size(); i++) {
            double tol = 16 * EPS * std::fabs(scale[i]) + 1e-300;
            if (!(std::fabs(a[i] - c[i]) <= tol)) {
                r.fail(std::string("C08.optimised_differs_from_reference:") + name,
                       fmt("index %d: %.17g vs %.17g; %s", i, a[i], c[i], r.signature.c_str()));
                return;
            }
        }
    };
    same(Px, P0x, PaX, "prolongation");
    same(Ex, E0x, EaX, "ex_prolongation");
    same(Ry, R0y, RaY, "restriction");
    same(ERy, ER0y, ERaY, "ex_restriction");
    // (3) injection after prolongation is the identity, bit for bit
    int idx = -1;
    if (!bit_equal(IPx, xc, &idx))
        r.fail("C08.injection_prolongation_not_identity:standard",
               fmt("coarse index %d: %.17g vs %.17g; %s", idx, idx >= 0 ? IPx[idx] : 0.0, idx >= 0 ? xc[idx] : 0.0,
                   r.signature.c_str()));
    if (!bit_equal(IEx, xc, &idx))
        r.fail("C08.injection_prolongation_not_identity:extrapolated",
               fmt("coarse index %d: %.17g vs %.17g; %s", idx, idx >= 0 ? IEx[idx] : 0.0, idx >= 0 ? xc[idx] : 0.0,
                   r.signature.c_str()));
    // (4) convexity: no new extrema, constants reproduced
    auto convex = [&](const Vector<double>& v, const char* name) {
        double lo = INFINITY, hi = -INFINITY;
        for (int i = 0; i < nc; i++) {
            lo = std::min(lo, xc[i]);
            hi = std::max(hi, xc[i]);
        }
        double tol = 8 * EPS * std::max(std::fabs(lo), std::fabs(hi));
        for (int i = 0; i < nf; i++)
            if (!(v[i] >= lo - tol && v[i] <= hi + tol)) {
                r.fail(std::string("C08.new_extremum:") + name,
                       fmt("fine index %d value %.17g outside [%.17g, %.17g]; %s", i, v[i], lo, hi, r.signature.c_str()));
                return;
            }
    };
    convex(Px, "prolongation");
    convex(Ex, "ex_prolongation");
    auto constant = [&](const Vector<double>& v, const char* name) {
        for (int i = 0; i < nf; i++)
            if (!(std::fabs(v[i] - 1.0) <= 8 * EPS)) {
                r.fail(std::string("C08.constant_not_reproduced:") + name,
                       fmt("fine index %d: %.17g; %s", i, v[i], r.signature.c_str()));
                return;
            }
    };
    constant(P1, "prolongation");
    constant(E1, "ex_prolongation");
    // explicit non-negativity of the weights on small pairs (unit vectors)
    if (nc <= 160) {
        Vector<double> e(nc);
        SimRun sr(canonical_sim(), r);
        for (int k = 0; k < nc; k++) {
            assign(e, 0.0);
            e[k]             = 1.0;
            Vector<double> c1 = ops.up(&Interpolation::applyProlongation, e);
            Vector<double> c2 = ops.up(&Interpolation::applyExtrapolatedProlongation, e);
            for (int i = 0; i < nf; i++) {
                if (c1[i] < 0)
                    r.fail("C08.negative_weight:prolongation", fmt("P[%d,%d]=%g; %s", i, k, c1[i], r.signature.c_str()));
                if (c2[i] < 0)
                    r.fail("C08.negative_weight:ex_prolongation",
                           fmt("P_ex[%d,%d]=%g; %s", i, k, c2[i], r.signature.c_str()));
            }
        }
        r.probe("explicit_weights_probed");
    }
    // (5) functions linear in r or theta are reproduced
    auto linear = [&](const Vector<double>& vr, const Vector<double>& vt, const char* name) {
        double worst_r = 0, worst_t = 0;
        for (int i = 0; i < fg.nr(); i++)
            for (int j = 0; j < fg.ntheta(); j++) {
                int q = fg.index(i, j);
                worst_r = std::max(worst_r, std::fabs(vr[q] - fg.radius(i)));
                // the angle is only piecewise linear across the periodic wrap: skip nodes whose stencil crosses it
                if (j < fg.ntheta() - 1)
                    worst_t = std::max(worst_t, std::fabs(vt[q] - fg.theta(j)));
            }
        r.maxim(std::string("linear_r_err:") + name + (mid ? ":midpoint" : ":nonmidpoint"), worst_r);
        r.maxim(std::string("linear_theta_err:") + name + (mid ? ":midpoint" : ":nonmidpoint"), worst_t);
        if (!(worst_r <= 16 * EPS * fg.radius(fg.nr() - 1)))
            r.fail(fmt("C08.linear_in_r_not_reproduced%s:%s", tag.c_str(), name),
                   fmt("max |P r - r| = %.3e; %s", worst_r, r.signature.c_str()));
        if (!(worst_t <= 16 * EPS * 2 * M_PI))
            r.fail(fmt("C08.linear_in_theta_not_reproduced%s:%s", tag.c_str(), name),
                   fmt("max |P theta - theta| = %.3e; %s", worst_t, r.signature.c_str()));
    };
    linear(Pr, Pt, "prolongation");
    linear(Er, Et, "ex_prolongation");
}

/* ======================================================================================================== */
/* C09 part A: the FMG interpolation operator                                                               */
/* ======================================================================================================== */
Value gen_fmgop(uint64_t seed, const std::string& tier) { return gen_pair(seed, tier, 0xC09A); }

void run_fmgop(const Value& plan, Result& r)
{
    BenchSpec spec = BenchSpec::from_json(plan.at("bench"));
    const int l    = (int)plan.at("level").as_int(0);
    Bench b;
    b.build(spec);
    Ops ops(b, l);
    const PolarGrid& fg = b.grid(l);
    const PolarGrid& cg = b.grid(l + 1);
    const bool mid      = midpoint_pair(fg, cg);
    const std::string tag = mid ? "" : "[nonmidpoint_pair]";
    r.signature = fmt("fmgop L%d->%d fine=%dx%d mid=%d %s", l, l + 1, fg.nr(), fg.ntheta(), (int)mid, spec.str().c_str());
    r.nontrivial = true;
    r.probe(mid ? "midpoint_pair" : "nonmidpoint_pair");
    if (fg.numberOfNodes() > 10000)
        r.probe("above_parallel_threshold");
    const int nf = fg.numberOfNodes(), nc = cg.numberOfNodes();
    Rng g(sim::mix(plan.at("seed_x").as_u64(), 0xF36));
    // polynomial coefficients
    double a[4], c[4];
    for (int k = 0; k < 4; k++) {
        a[k] = g.uniform(-1, 1);
        c[k] = g.uniform(-1, 1);
    }
    auto pr = [&](double rr) { return a[0] + rr * (a[1] + rr * (a[2] + rr * a[3])); };
    auto pt = [&](double t) { return c[0] + t * (c[1] + t * (c[2] + t * c[3])) / 8.0; };
    Vector<double> xc = rand_vector(nc, plan.at("seed_x").as_u64(), (int)plan.at("kind_x").as_int(0), 1.0, &cg);
    Vector<double> one(nc), vr(nc), vt(nc), vrt(nc), lr(nc), lt(nc);
    for (int i = 0; i < cg.nr(); i++)
        for (int j = 0; j < cg.ntheta(); j++) {
            int q  = cg.index(i, j);
            one[q] = 1.0;
            vr[q]  = pr(cg.radius(i));
            vt[q]  = pt(cg.theta(j));
            vrt[q] = pr(cg.radius(i)) * pt(cg.theta(j));
            lr[q]  = cg.radius(i);
            lt[q]  = cg.theta(j);
        }
    Vector<double> Fx, F1, Fr, Ft, Frt, Flr, Flt, IFx;
    {
        SimRun sr(plan.at("sim"), r);
        Fx  = ops.up(&Interpolation::applyFMGInterpolation, xc);
        F1  = ops.up(&Interpolation::applyFMGInterpolation, one);
        Fr  = ops.up(&Interpolation::applyFMGInterpolation, vr);
        Ft  = ops.up(&Interpolation::applyFMGInterpolation, vt);
        Frt = ops.up(&Interpolation::applyFMGInterpolation, vrt);
        Flr = ops.up(&Interpolation::applyFMGInterpolation, lr);
        Flt = ops.up(&Interpolation::applyFMGInterpolation, lt);
        IFx = ops.down(&Interpolation::applyInjection, Fx);
    }
    int idx = -1;
    if (!bit_equal(IFx, xc, &idx))
        r.fail("C09.fmg_coarse_value_not_copied", fmt("coarse index %d: %.17g vs %.17g; %s", idx,
                                                      idx >= 0 ? IFx[idx] : 0.0, idx >= 0 ? xc[idx] : 0.0,
                                                      r.signature.c_str()));
    for (int i = 0; i < nf; i++)
        if (!(std::fabs(F1[i] - 1.0) <= 32 * EPS)) {
            r.fail("C09.fmg_constant_not_reproduced", fmt("fine index %d: %.17g; %s", i, F1[i], r.signature.c_str()));
            break;
        }
    // node classes
    const int nr = fg.nr(), nt = fg.ntheta();
    const double R = fg.radius(nr - 1);
    double sr_ = std::fabs(a[0]) + R * (std::fabs(a[1]) + R * (std::fabs(a[2]) + R * std::fabs(a[3])));
    double st_ = std::fabs(c[0]) + 2 * M_PI * (std::fabs(c[1]) + 2 * M_PI * (std::fabs(c[2]) + 2 * M_PI * std::fabs(c[3]))) / 8.0;
    double w_r = 0, w_t = 0, w_rt = 0, w_lr = 0, w_lt = 0;
    for (int i = 0; i < nr; i++)
        for (int j = 0; j < nt; j++) {
            int q = fg.index(i, j);
            bool r_interior = (i % 2 == 0) || (i >= 3 && i <= nr - 4); // 4-point radial stencil exists
            bool r_fallback = (i == 1 || i == nr - 2);
            bool t_nowrap   = (j % 2 == 0) || (j >= 3 && j <= nt - 4); // 4-point angular stencil without periodic wrap
            bool t_lin_ok   = (j % 2 == 0) || (j <= nt - 2);
            if (r_interior && (j % 2 == 0 || t_nowrap))
                w_r = std::max(w_r, std::fabs(Fr[q] - pr(fg.radius(i))));
            if (t_nowrap && (r_interior || r_fallback))
                w_t = std::max(w_t, std::fabs(Ft[q] - pt(fg.theta(j))));
            if (r_interior && t_nowrap)
                w_rt = std::max(w_rt, std::fabs(Frt[q] - pr(fg.radius(i)) * pt(fg.theta(j))));
            // linear functions: everywhere (including the two fall-back lines)
            if (j % 2 == 0 || t_nowrap)
                w_lr = std::max(w_lr, std::fabs(Flr[q] - fg.radius(i)));
            if (t_nowrap)
                w_lt = std::max(w_lt, std::fabs(Flt[q] - fg.theta(j)));
            (void)t_lin_ok;
        }
    r.maxim("cubic_r_err", w_r);
    r.maxim("cubic_theta_err", w_t);
    r.maxim(std::string("linear_r_err") + (mid ? ":midpoint" : ":nonmidpoint"), w_lr);
    const double K = 256;
    if (!(w_r <= K * EPS * sr_))
        r.fail("C09.fmg_cubic_in_r_not_reproduced", fmt("max err %.3e (scale %.3g); %s", w_r, sr_, r.signature.c_str()));
    if (!(w_t <= K * EPS * st_))
        r.fail("C09.fmg_cubic_in_theta_not_reproduced",
               fmt("max err %.3e (scale %.3g); %s", w_t, st_, r.signature.c_str()));
    if (!(w_rt <= K * EPS * sr_ * st_))
        r.fail("C09.fmg_bicubic_not_reproduced", fmt("max err %.3e; %s", w_rt, r.signature.c_str()));
    if (!(w_lr <= K * EPS * R))
        r.fail("C09.fmg_linear_in_r_not_reproduced" + tag,
               fmt("max err %.3e (includes the two fall-back lines next to the boundaries); %s", w_lr,
                   r.signature.c_str()));
    if (!(w_lt <= K * EPS * 2 * M_PI))
        r.fail("C09.fmg_linear_in_theta_not_reproduced" + tag, fmt("max err %.3e; %s", w_lt, r.signature.c_str()));
}

Registrar r1({"transfer", "C08", "fast,trace", gen_transfer, run_transfer});
Registrar r2({"fmgop", "C09", "fast,trace", gen_fmgop, run_fmgop});

} // namespace
