// C14 -- tridiagonal / diagonal line solvers: operation histories (lazy factorisation on the first solve), and
// C15 -- copies and moves of linear-algebra objects: operation histories over a pool of objects owned by simulated
//        caller threads, checked against a value-semantics model.
#include "harness/common.h"
#include "LinearAlgebra/coo_matrix.h"
#include "LinearAlgebra/csr_matrix.h"
#include "LinearAlgebra/diagonalSolver.h"
#include "LinearAlgebra/sparseLUSolver.h"
#include <omp.h>
#include "LinearAlgebra/symmetricTridiagonalSolver.h"
#include "LinearAlgebra/vector.h"

using namespace hs;

namespace {

typedef std::vector<long double> Dense; // row major n x n

/* ---------------------------------------------------------------------------------------------------- */
/* SPD tridiagonal generators                                                                           */
/* ---------------------------------------------------------------------------------------------------- */
struct TriSpec {
    int n = 2;
    bool cyclic = false;
    std::vector<double> diag, sub;
    double corner = 0;
};

TriSpec gen_tri(Rng& g, int n, bool cyclic, int family, bool scaled)
{
    TriSpec t;
    t.n      = n;
    t.cyclic = cyclic;
    t.diag.assign(n, 0.0);
    t.sub.assign(std::max(0, n - 1), 0.0);
    t.corner = 0;
    if (family == 1 && !cyclic) {
        // L L^T with bidiagonal L (positive diagonal): SPD, not necessarily diagonally dominant
        std::vector<double> ld(n), ls(std::max(0, n - 1));
        for (int i = 0; i < n; i++)
            ld[i] = g.uniform(0.5, 2.0);
        for (int i = 0; i + 1 < n; i++)
            ls[i] = g.uniform(-1.5, 1.5);
        for (int i = 0; i < n; i++) {
            t.diag[i] = ld[i] * ld[i] + (i > 0 ? ls[i - 1] * ls[i - 1] : 0.0);
            if (i + 1 < n)
                t.sub[i] = ls[i] * ld[i];
        }
    }
    else {
        for (int i = 0; i + 1 < n; i++)
            t.sub[i] = (family == 2 && g.chance(0.5)) ? 0.0 : g.uniform(-1, 1);
        if (cyclic)
            t.corner = (family == 2 && g.chance(0.3)) ? 0.0 : g.uniform(-1, 1);
        for (int i = 0; i < n; i++) {
            double off = 0;
            if (i > 0)
                off += std::fabs(t.sub[i - 1]);
            if (i + 1 < n)
                off += std::fabs(t.sub[i]);
            if (cyclic && (i == 0 || i == n - 1))
                off += std::fabs(t.corner);
            t.diag[i] = off + g.loguniform(1e-3, 2.0) + (off == 0 ? 0.5 : 0.0); // strictly diagonally dominant
        }
    }
    if (scaled) {
        // symmetric scaling D A D keeps the matrix SPD; rows then differ by many orders of magnitude
        std::vector<double> d(n);
        for (int i = 0; i < n; i++)
            d[i] = g.loguniform(1e-5 / 1e-5 * 3.2e-3, 3.2e2); // entries scaled by d_i d_j in [1e-5, 1e5]
        for (int i = 0; i < n; i++)
            t.diag[i] *= d[i] * d[i];
        for (int i = 0; i + 1 < n; i++)
            t.sub[i] *= d[i] * d[i + 1];
        t.corner *= d[0] * d[n - 1];
    }
    return t;
}

Dense tri_dense(const TriSpec& t)
{
    Dense A((size_t)t.n * t.n, 0.0L);
    for (int i = 0; i < t.n; i++)
        A[(size_t)i * t.n + i] = t.diag[i];
    for (int i = 0; i + 1 < t.n; i++) {
        A[(size_t)i * t.n + i + 1] += t.sub[i];
        A[(size_t)(i + 1) * t.n + i] += t.sub[i];
    }
    if (t.cyclic && t.n >= 2) {
        A[(size_t)0 * t.n + (t.n - 1)] += t.corner;
        A[(size_t)(t.n - 1) * t.n + 0] += t.corner;
    }
    return A;
}

void fill_solver(SymmetricTridiagonalSolver<double>& s, const TriSpec& t)
{
    s.is_cyclic(t.cyclic);
    for (int i = 0; i < t.n; i++)
        s.main_diagonal(i) = t.diag[i];
    for (int i = 0; i + 1 < t.n; i++)
        s.sub_diagonal(i) = t.sub[i];
    if (t.cyclic)
        s.cyclic_corner_element() = t.corner;
}

// normwise backward error of x for A x = b, in units of c*n*eps
double backward_units(const Dense& A, int n, const std::vector<double>& x, const std::vector<double>& b, double c = 16.0)
{
    long double rmax = 0, na = 0, nx = 0, nb = 0;
    for (int i = 0; i < n; i++) {
        long double s = b[i], rowsum = 0;
        for (int j = 0; j < n; j++) {
            s -= A[(size_t)i * n + j] * (long double)x[j];
            rowsum += std::fabs(A[(size_t)i * n + j]);
        }
        rmax = std::max(rmax, std::fabs(s));
        na   = std::max(na, rowsum);
        nx   = std::max(nx, (long double)std::fabs(x[i]));
        nb   = std::max(nb, (long double)std::fabs(b[i]));
        if (!std::isfinite(x[i]))
            return INFINITY;
    }
    long double allowed = c * std::max(n, 4) * EPS * (na * nx + nb) + 1e-300L;
    return (double)(rmax / allowed);
}

// banded variant for large tridiagonal systems (O(n))
double tri_backward_units(const TriSpec& t, const std::vector<double>& x, const std::vector<double>& b, double c = 16.0)
{
    const int n = t.n;
    long double rmax = 0, na = 0, nx = 0, nb = 0;
    for (int i = 0; i < n; i++) {
        long double s = (long double)b[i] - (long double)t.diag[i] * x[i], rowsum = std::fabs(t.diag[i]);
        auto off = [&](int j, double v) {
            s -= (long double)v * x[j];
            rowsum += std::fabs(v);
        };
        if (i > 0)
            off(i - 1, t.sub[i - 1]);
        if (i + 1 < n)
            off(i + 1, t.sub[i]);
        if (t.cyclic && n >= 2) {
            if (i == 0)
                off(n - 1, t.corner);
            if (i == n - 1)
                off(0, t.corner);
        }
        rmax = std::max(rmax, std::fabs(s));
        na   = std::max(na, rowsum);
        nx   = std::max(nx, (long double)std::fabs(x[i]));
        nb   = std::max(nb, (long double)std::fabs(b[i]));
        if (!std::isfinite(x[i]))
            return INFINITY;
    }
    long double allowed = c * std::max(n, 4) * EPS * (na * nx + nb) + 1e-300L;
    return (double)(rmax / allowed);
}

/* ======================================================================================================== */
/* C14                                                                                                      */
/* ======================================================================================================== */
Value gen_tri_plan(uint64_t seed, const std::string& tier)
{
    Rng g(sim::mix(seed, 0xC14));
    Value p = Value::object();
    static const int small[] = {2, 2, 3, 3, 4, 5, 7, 8};
    int n;
    int c = (int)g.below(10);
    if (c < 4)
        n = small[g.below(8)];
    else if (c < 8)
        n = g.range(6, 200);
    else
        n = g.range(200, tier == "thorough" ? 4096 : 1500);
    p["n"]       = n;
    p["cyclic"]  = g.chance(0.5);
    p["family"]  = g.range(0, 2);
    p["scaled"]  = g.chance(0.4);
    p["mseed"]   = (long long)(g.next() >> 1);
    p["nsolves"] = g.range(1, 5);
    p["same_rhs"] = g.chance(0.5);
    p["kind_b"]  = g.range(0, 4);
    p["diag"]    = g.chance(0.15); // DiagonalSolver instead
    p["reassign"] = g.chance(0.35);
    p["callers"] = g.chance(0.3) ? g.range(2, 4) : 1;
    p["sim"]     = gen_sim(g, false);
    return p;
}

struct Fails {
    std::vector<Violation> v;
    void fail(const std::string& c, const std::string& d) { v.push_back({c, d}); }
};

void tri_history(const Value& plan, int salt, Fails& out, std::map<std::string, double>& maxima)
{
    Rng g(sim::mix(plan.at("mseed").as_u64(), 1000 + salt));
    const int n       = (int)plan.at("n").as_int(2);
    const int nsolves = (int)plan.at("nsolves").as_int(1);
    const bool same   = plan.at("same_rhs").as_bool(false);
    std::string sig   = fmt("n=%d cyclic=%d family=%d scaled=%d solves=%d", n, (int)plan.at("cyclic").as_bool(),
                          (int)plan.at("family").as_int(), (int)plan.at("scaled").as_bool(), nsolves);
    if (plan.at("diag").as_bool(false)) {
        DiagonalSolver<double> d(n);
        std::vector<double> dv(n);
        for (int i = 0; i < n; i++) {
            dv[i]         = g.loguniform(1e-5, 1e5) * (g.chance(0.5) ? 1 : -1);
            d.diagonal(i) = dv[i];
        }
        for (int s = 0; s < nsolves; s++) {
            Vector<double> b = rand_vector(n, g.next(), (int)plan.at("kind_b").as_int(0));
            Vector<double> x = b;
            d.solveInPlace(x.begin());
            for (int i = 0; i < n; i++)
                if (std::fabs(x[i] * dv[i] - b[i]) > 4 * EPS * std::fabs(b[i])) {
                    out.fail("C14.diagonal_solve_wrong", fmt("i=%d; %s", i, sig.c_str()));
                    break;
                }
        }
        return;
    }
    TriSpec t = gen_tri(g, n, plan.at("cyclic").as_bool(false), (int)plan.at("family").as_int(0),
                        plan.at("scaled").as_bool(false));
    SymmetricTridiagonalSolver<double> s(n);
    fill_solver(s, t);
    Vector<double> t1(n), t2(n);
    Vector<double> first_b, first_x;
    for (int k = 0; k < nsolves; k++) {
        Vector<double> b = (same && k > 0) ? first_b : rand_vector(n, g.next(), (int)plan.at("kind_b").as_int(0));
        Vector<double> x = b;
        fill_junk(t1, k, 1);
        fill_junk(t2, k + 50, 1);
        s.solveInPlace(x.begin(), t1.begin(), t2.begin());
        double u = tri_backward_units(t, to_std(x), to_std(b));
        auto it  = maxima.find("backward_units");
        if (it == maxima.end() || u > it->second)
            maxima["backward_units"] = u;
        if (!(u <= 1.0))
            out.fail(fmt("C14.solve_not_backward_stable:%s%s", t.cyclic ? "cyclic" : "plain", k == 0 ? ":first" : ":later"),
                     fmt("solve #%d: backward error %.3g x (16 n eps); %s", k + 1, u, sig.c_str()));
        if (k == 0) {
            first_b = b;
            first_x = x;
        }
        else if (same) {
            int idx = -1;
            if (!bit_equal(x, first_x, &idx))
                out.fail(fmt("C14.repeated_solve_differs:%s", t.cyclic ? "cyclic" : "plain"),
                         fmt("solve #%d with the same right-hand side: index %d %.17g vs first %.17g; %s", k + 1, idx,
                             idx >= 0 ? x[idx] : 0.0, idx >= 0 ? first_x[idx] : 0.0, sig.c_str()));
        }
    }
    // the used (factorised) object is given a new system, and a fresh object is given the used one: every later solve
    // must solve the system the object then holds (the lazy factorisation state travels with the matrix)
    if (plan.at("reassign").as_bool(false)) {
        TriSpec tb = gen_tri(g, n, plan.at("cyclic").as_bool(false), (int)plan.at("family").as_int(0),
                             plan.at("scaled").as_bool(false));
        SymmetricTridiagonalSolver<double> fresh(n);
        fill_solver(fresh, tb);
        SymmetricTridiagonalSolver<double> target(n); // never solved
        fill_solver(target, tb);
        target = s; // unfactorised <- factorised (holds system t)
        s      = fresh; // factorised <- unfactorised (now holds system t2)
        for (int which = 0; which < 2; which++) {
            Vector<double> b = rand_vector(n, g.next(), (int)plan.at("kind_b").as_int(0));
            Vector<double> x = b;
            fill_junk(t1, 7, 1);
            fill_junk(t2, 8, 1);
            if (which == 0)
                s.solveInPlace(x.begin(), t1.begin(), t2.begin());
            else
                target.solveInPlace(x.begin(), t1.begin(), t2.begin());
            double u = tri_backward_units(which == 0 ? tb : t, to_std(x), to_std(b));
            if (!(u <= 1.0))
                out.fail(fmt("C14.solve_after_reassignment_wrong:%s", which == 0 ? "used_object_given_new_system"
                                                                                : "fresh_object_given_used_one"),
                         fmt("backward error %.3g x (16 n eps); %s", u, sig.c_str()));
        }
    }
}

void run_tri(const Value& plan, Result& r)
{
    const int callers = (int)plan.at("callers").as_int(1);
    r.signature = fmt("tri n=%d cyclic=%d family=%d scaled=%d solves=%d diag=%d callers=%d seed=%llu",
                      (int)plan.at("n").as_int(), (int)plan.at("cyclic").as_bool(), (int)plan.at("family").as_int(),
                      (int)plan.at("scaled").as_bool(), (int)plan.at("nsolves").as_int(), (int)plan.at("diag").as_bool(),
                      callers, (unsigned long long)plan.at("mseed").as_u64());
    r.nontrivial = true;
    r.probe(fmt("n_class_%s", plan.at("n").as_int() <= 3 ? "2_3" : plan.at("n").as_int() < 200 ? "small" : "large"));
    r.probe(plan.at("cyclic").as_bool() ? "cyclic" : "plain");
    if (plan.at("nsolves").as_int() >= 2)
        r.probe("repeated_solve");
    if (plan.at("scaled").as_bool())
        r.probe("widely_scaled_rows");
    if (plan.at("reassign").as_bool(false) && !plan.at("diag").as_bool(false))
        r.probe("reassigned");
    std::vector<Fails> fl(callers);
    std::vector<std::map<std::string, double>> mx(callers);
    {
        SimRun sr(plan.at("sim"), r);
        if (callers == 1)
            tri_history(plan, 0, fl[0], mx[0]);
        else {
            r.probe("caller_threads");
            sim::run_callers(callers, [&](int tid) {
                tri_history(plan, tid, fl[tid], mx[tid]); // disjoint objects on different caller threads
            });
        }
    }
    for (auto& f : fl)
        for (auto& v : f.v)
            r.fail(v.cls, v.detail);
    for (auto& m : mx)
        for (auto& kv : m)
            r.maxim(kv.first, kv.second);
}

/* ======================================================================================================== */
/* C15: pool of objects, value-semantics model                                                              */
/* ======================================================================================================== */
enum Kind
{
    K_VEC = 0,
    K_COO,
    K_CSR,
    K_LU,
    K_TRI,
    K_DIAG,
    K_COUNT
};
const char* kind_name(int k)
{
    static const char* n[] = {"Vector", "SparseMatrixCOO", "SparseMatrixCSR", "SparseLUSolver", "SymmetricTridiagonalSolver",
                              "DiagonalSolver"};
    return n[k];
}

struct Model {
    bool live = false, moved_from = false, defaulted = false;
    int n = 0, m = 0;
    std::vector<double> vec; // vector content / diagonal
    std::vector<std::tuple<int, int, double>> trip; // COO / CSR entries
    bool symmetric = false;
    Dense A; // linear system of LU / TRI
    TriSpec tri;
    int solves = 0;
};

struct Slot {
    int kind = 0;
    int owner = 0;
    bool shared_ro = false;
    Model md;
    std::unique_ptr<Vector<double>> vec;
    std::unique_ptr<SparseMatrixCOO<double>> coo;
    std::unique_ptr<SparseMatrixCSR<double>> csr;
    std::unique_ptr<SparseLUSolver<double>> lu;
    std::unique_ptr<SymmetricTridiagonalSolver<double>> tri;
    std::unique_ptr<DiagonalSolver<double>> diag;
    void reset()
    {
        vec.reset();
        coo.reset();
        csr.reset();
        lu.reset();
        tri.reset();
        diag.reset();
        md = Model();
    }
    bool exists() const { return vec || coo || csr || lu || tri || diag; }
};

std::vector<std::tuple<int, int, double>> gen_sparse(Rng& g, int n)
{
    // strictly diagonally dominant, unsorted columns, a few stored zeros
    std::vector<std::tuple<int, int, double>> tr;
    for (int i = 0; i < n; i++) {
        double off = 0;
        std::vector<std::pair<int, double>> row;
        int k = g.range(0, std::min(4, n - 1));
        std::vector<int> used;
        for (int q = 0; q < k; q++) {
            int c = (int)g.below((uint64_t)n);
            if (c == i || std::find(used.begin(), used.end(), c) != used.end())
                continue;
            used.push_back(c);
            double v = g.chance(0.1) ? 0.0 : g.uniform(-1, 1);
            row.push_back({c, v});
            off += std::fabs(v);
        }
        row.push_back({i, off + g.uniform(0.5, 2.0)});
        for (int q = (int)row.size() - 1; q > 0; q--)
            std::swap(row[q], row[g.below((uint64_t)q + 1)]);
        for (auto& e : row)
            tr.push_back({i, e.first, e.second});
    }
    return tr;
}

// A matrix "of the same shape" as an existing one: same size, same number of entries per row and triangle, but another
// in-row order, one entry moved inside its triangle, and new values.  Assigning between such siblings is where an
// assignment that re-uses the target's index arrays "because the sizes agree" goes wrong.
std::vector<std::tuple<int, int, double>> sibling_sparse(Rng& g, int n, const std::vector<std::tuple<int, int, double>>& tr)
{
    std::vector<std::vector<std::pair<int, double>>> rows(n);
    for (auto& t : tr)
        rows[std::get<0>(t)].push_back({std::get<1>(t), std::get<2>(t)});
    const int variant = (int)g.below(3); // 0: in-row order, 1: + one entry moved, 2: + mirrored columns
    std::vector<std::tuple<int, int, double>> out;
    for (int i = 0; i < n; i++) {
        auto row = rows[i];
        if (variant == 2)
            for (auto& e : row)
                if (e.first != i) {
                    // reflect the column about the diagonal inside its triangle where possible
                    int c = e.first < i ? (i - 1) - e.first : (n - 1) - (e.first - (i + 1));
                    bool used = false;
                    for (auto& o : row)
                        used = used || (o.first == c && &o != &e);
                    if (!used)
                        e.first = c;
                }
        if (variant >= 1 && row.size() >= 2 && g.chance(0.5)) {
            auto& e = row[g.below(row.size())];
            if (e.first != i) {
                int lo = e.first < i ? 0 : i + 1, hi = e.first < i ? i - 1 : n - 1;
                int c  = lo + (int)g.below((uint64_t)(hi - lo + 1));
                bool used = false;
                for (auto& o : row)
                    used = used || o.first == c;
                if (!used)
                    e.first = c;
            }
        }
        double off = 0;
        for (auto& e : row)
            if (e.first != i) {
                e.second = e.second == 0.0 ? 0.0 : g.uniform(-1, 1);
                off += std::fabs(e.second);
            }
        for (auto& e : row)
            if (e.first == i)
                e.second = off + g.uniform(0.5, 2.0);
        for (int q = (int)row.size() - 1; q > 0; q--)
            std::swap(row[q], row[g.below((uint64_t)q + 1)]);
        for (auto& e : row)
            out.push_back({i, e.first, e.second});
    }
    return out;
}

Dense dense_of(const std::vector<std::tuple<int, int, double>>& tr, int n)
{
    Dense A((size_t)n * n, 0.0L);
    for (auto& t : tr)
        A[(size_t)std::get<0>(t) * n + std::get<1>(t)] += std::get<2>(t);
    return A;
}

struct Pool {
    std::vector<Slot> slots;
    std::vector<Fails> fails; // per owner thread
    std::string hist;
};

void construct(Slot& s, int kind, int n, uint64_t seed, const std::vector<std::tuple<int, int, double>>* like = nullptr)
{
    Rng g(sim::mix(seed, 77));
    std::vector<std::tuple<int, int, double>> like_copy;
    if (like) {
        like_copy = sibling_sparse(g, n, *like); // before s.reset(): `like` may live in s
        like      = &like_copy;
    }
    s.reset();
    s.kind    = kind;
    Model& md = s.md;
    md.live   = true;
    md.n = md.m = n;
    switch (kind) {
    case K_VEC: {
        s.vec = std::make_unique<Vector<double>>(n);
        md.vec.resize(n);
        for (int i = 0; i < n; i++)
            md.vec[i] = (*s.vec)[i] = g.uniform(-1, 1);
        break;
    }
    case K_COO: {
        md.trip = like ? *like : gen_sparse(g, n);
        md.m    = n + (g.chance(0.4) ? g.range(1, 3) : 0); // rectangular: trailing empty columns
        s.coo   = std::make_unique<SparseMatrixCOO<double>>(n, md.m, md.trip);
        md.symmetric = g.chance(0.3);
        s.coo->is_symmetric(md.symmetric);
        break;
    }
    case K_CSR: {
        md.trip = like ? *like : gen_sparse(g, n);
        md.m    = n + (g.chance(0.4) ? g.range(1, 3) : 0);
        s.csr   = std::make_unique<SparseMatrixCSR<double>>(n, md.m, md.trip);
        break;
    }
    case K_LU: {
        md.trip = like ? *like : gen_sparse(g, n);
        SparseMatrixCSR<double> A(n, n, md.trip);
        s.lu  = std::make_unique<SparseLUSolver<double>>(A);
        md.A  = dense_of(md.trip, n);
        break;
    }
    case K_TRI: {
        md.tri = gen_tri(g, std::max(2, n), g.chance(0.5), g.range(0, 2), g.chance(0.2));
        md.n   = md.tri.n;
        s.tri  = std::make_unique<SymmetricTridiagonalSolver<double>>(md.tri.n);
        fill_solver(*s.tri, md.tri);
        md.A = tri_dense(md.tri);
        break;
    }
    default: {
        s.diag = std::make_unique<DiagonalSolver<double>>(n);
        md.vec.resize(n);
        for (int i = 0; i < n; i++)
            md.vec[i] = s.diag->diagonal(i) = g.loguniform(1e-3, 1e3);
    }
    }
}

// observational equality with the model: element reads / solution of the model system
void observe(Slot& s, Fails& out, const std::string& ctx, uint64_t seed)
{
    Model& md = s.md;
    if (!md.live || md.moved_from || md.defaulted || !s.exists())
        return;
    Rng g(sim::mix(seed, 99));
    const char* kn = kind_name(s.kind);
    switch (s.kind) {
    case K_VEC:
        if (s.vec->size() != (int)md.vec.size()) {
            out.fail(fmt("C15.size_differs:%s", kn), ctx);
            return;
        }
        for (int i = 0; i < s.vec->size(); i++)
            if (std::memcmp(&(*s.vec)[i], &md.vec[i], 8) != 0) {
                out.fail(fmt("C15.content_differs:%s", kn), fmt("element %d: %.17g vs model %.17g; %s", i, (*s.vec)[i], md.vec[i], ctx.c_str()));
                return;
            }
        break;
    case K_COO:
        if (s.coo->rows() != md.n || s.coo->columns() != md.m || s.coo->non_zero_size() != (int)md.trip.size() ||
            s.coo->is_symmetric() != md.symmetric) {
            out.fail(fmt("C15.shape_differs:%s", kn), ctx);
            return;
        }
        for (int q = 0; q < s.coo->non_zero_size(); q++)
            if (s.coo->row_index(q) != std::get<0>(md.trip[q]) || s.coo->col_index(q) != std::get<1>(md.trip[q]) ||
                s.coo->value(q) != std::get<2>(md.trip[q])) {
                out.fail(fmt("C15.content_differs:%s", kn), fmt("entry %d; %s", q, ctx.c_str()));
                return;
            }
        break;
    case K_CSR: {
        if (s.csr->rows() != md.n || s.csr->columns() != md.m || s.csr->non_zero_size() != (int)md.trip.size()) {
            out.fail(fmt("C15.shape_differs:%s", kn), ctx);
            return;
        }
        Dense want = dense_of(md.trip, md.n), got((size_t)md.n * md.n, 0.0L);
        for (int i = 0; i < md.n; i++)
            for (int q = 0; q < s.csr->row_nz_size(i); q++)
                got[(size_t)i * md.n + s.csr->row_nz_index(i, q)] += s.csr->row_nz_entry(i, q);
        if (got != want)
            out.fail(fmt("C15.content_differs:%s", kn), ctx);
        break;
    }
    case K_LU:
    case K_TRI: {
        const int n = md.n;
        Vector<double> b = rand_vector(n, g.next(), VK_UNIFORM), x = b, t1(n), t2(n);
        if (s.kind == K_LU)
            s.lu->solveInPlace(x);
        else {
            s.tri->solveInPlace(x.begin(), t1.begin(), t2.begin());
            md.solves++;
        }
        double u = backward_units(md.A, n, to_std(x), to_std(b));
        if (!(u <= 1.0))
            out.fail(fmt("C15.solves_a_different_system:%s", kn),
                     fmt("backward error against the model system %.3g x (16 n eps); %s", u, ctx.c_str()));
        break;
    }
    default:
        if (s.diag->rows() != md.n || s.diag->columns() != md.n) {
            out.fail(fmt("C15.size_differs:%s", kn), ctx);
            return;
        }
        for (int i = 0; i < md.n; i++)
            if (s.diag->diagonal(i) != md.vec[i]) {
                out.fail(fmt("C15.content_differs:%s", kn), fmt("diagonal %d; %s", i, ctx.c_str()));
                return;
            }
    }
}

template <class T>
void copy_construct_into(std::unique_ptr<T>& dst, const std::unique_ptr<T>& src)
{
    dst = std::make_unique<T>(*src);
}
template <class T>
void move_construct_into(std::unique_ptr<T>& dst, std::unique_ptr<T>& src)
{
    dst = std::make_unique<T>(std::move(*src));
}

#define FOR_KIND(S, EXPR)                                                                                              \
    switch ((S).kind) {                                                                                                \
    case K_VEC: { auto& P = (S).vec; EXPR; break; }                                                                    \
    case K_COO: { auto& P = (S).coo; EXPR; break; }                                                                    \
    case K_CSR: { auto& P = (S).csr; EXPR; break; }                                                                    \
    case K_LU: { auto& P = (S).lu; EXPR; break; }                                                                      \
    case K_TRI: { auto& P = (S).tri; EXPR; break; }                                                                    \
    default: { auto& P = (S).diag; EXPR; }                                                                             \
    }

// dst <- copy/move of src ; dst may be empty (construct) or hold an object of the same kind (assign)
void transfer(Slot& dst, Slot& src, bool move, bool assign)
{
    const int kind = src.kind;
    if (!assign || !dst.exists() || dst.kind != kind) {
        dst.reset();
        dst.kind = kind;
        switch (kind) {
        case K_VEC: move ? move_construct_into(dst.vec, src.vec) : copy_construct_into(dst.vec, src.vec); break;
        case K_COO: move ? move_construct_into(dst.coo, src.coo) : copy_construct_into(dst.coo, src.coo); break;
        case K_CSR: move ? move_construct_into(dst.csr, src.csr) : copy_construct_into(dst.csr, src.csr); break;
        case K_LU: move ? move_construct_into(dst.lu, src.lu) : copy_construct_into(dst.lu, src.lu); break;
        case K_TRI: move ? move_construct_into(dst.tri, src.tri) : copy_construct_into(dst.tri, src.tri); break;
        default: move ? move_construct_into(dst.diag, src.diag) : copy_construct_into(dst.diag, src.diag);
        }
    }
    else {
        switch (kind) {
        case K_VEC: if (move) *dst.vec = std::move(*src.vec); else *dst.vec = *src.vec; break;
        case K_COO: if (move) *dst.coo = std::move(*src.coo); else *dst.coo = *src.coo; break;
        case K_CSR: if (move) *dst.csr = std::move(*src.csr); else *dst.csr = *src.csr; break;
        case K_LU: if (move) *dst.lu = std::move(*src.lu); else *dst.lu = *src.lu; break;
        case K_TRI: if (move) *dst.tri = std::move(*src.tri); else *dst.tri = *src.tri; break;
        default: if (move) *dst.diag = std::move(*src.diag); else *dst.diag = *src.diag;
        }
    }
    dst.md = src.md; // value semantics: the target equals the source at this moment
    if (move)
        src.md.moved_from = true;
}

Value gen_pool(uint64_t seed, const std::string& tier)
{
    Rng g(sim::mix(seed, 0xC15));
    Value p      = Value::object();
    int callers  = g.chance(0.4) ? g.range(2, 4) : 1;
    int per      = g.range(2, 4); // slots per owner
    p["callers"] = callers;
    p["per"]     = per;
    Value ops    = Value::array();
    int nops     = g.range(4, tier == "thorough" ? 40 : 24);
    // every owner starts by constructing its first slot; slot index = owner*per + k ; slot 0 of owner 0 may be shared
    for (int o = 0; o < callers; o++) {
        Value op     = Value::object();
        op["owner"]  = o;
        op["op"]     = "construct";
        op["dst"]    = 0;
        op["kind"]   = g.range(0, K_COUNT - 1);
        op["n"]      = g.range(2, g.chance(0.1) ? 300 : 24);
        op["seed"]   = (long long)(g.next() >> 1);
        ops.push(op);
    }
    static const char* names[] = {"construct", "copy_construct", "copy_assign", "move_construct", "move_assign",
                                  "self_assign", "solve", "modify", "destroy", "observe", "copy_default"};
    for (int k = 0; k < nops; k++) {
        Value op    = Value::object();
        op["owner"] = (int)g.below((uint64_t)callers);
        int c       = (int)g.below(100);
        const char* nm = c < 10 ? names[0] : c < 25 ? names[1] : c < 40 ? names[2] : c < 50 ? names[3] : c < 60 ? names[4]
                       : c < 64 ? names[5] : c < 80 ? names[6] : c < 86 ? names[7] : c < 90 ? names[8] : c < 97 ? names[9]
                                                                                                                 : names[10];
        op["op"]   = nm;
        op["dst"]  = (int)g.below((uint64_t)per);
        op["src"]  = (int)g.below((uint64_t)per);
        op["kind"] = g.range(0, K_COUNT - 1);
        op["n"]    = g.range(2, g.chance(0.1) ? 300 : 24);
        op["seed"] = (long long)(g.next() >> 1);
        op["alloc_fail"] = (callers == 1 && g.chance(0.06)) ? g.range(1, 3) : 0;
        if (g.chance(0.12) && op.at("dst").as_int(0) != op.at("src").as_int(0)) {
            // sibling pair: construct dst like src, maybe use it, then assign one over the other
            op["op"]         = "construct_sibling";
            op["alloc_fail"] = 0;
            ops.push(op);
            if (g.chance(0.5)) {
                Value u  = op;
                u["op"]  = "solve";
                u["src"] = op.at("dst");
                ops.push(u);
            }
            Value a = op;
            a["op"] = g.chance(0.75) ? "copy_assign" : "move_assign";
            if (g.chance(0.5)) {
                a["dst"] = op.at("src");
                a["src"] = op.at("dst");
            }
            a["seed"] = (long long)(g.next() >> 1);
            ops.push(a);
            continue;
        }
        ops.push(op);
    }
    // copies of vectors above the library's parallel threshold (10 000 entries) run in a team: the calling program's
    // thread count and a team shortfall (fewer threads delivered than asked for) must not change what is copied
    p["T"] = g.chance(0.5) ? 1 : g.range(2, 7);
    if (g.chance(0.15))
        for (Value& op : ops.a)
            if (op.at("op").as_str() == "construct" && g.chance(0.5)) {
                op["kind"] = (int)K_VEC;
                op["n"]    = g.range(10001, 12500);
            }
    p["ops"] = ops;
    p["sim"] = gen_sim(g, callers == 1);
    return p;
}

void exec_owner(Pool& pool, const Value& plan, int owner, int callers)
{
    const int per    = (int)plan.at("per").as_int(2);
    const Value& ops = plan.at("ops");
    Fails& out       = pool.fails[owner];
    std::string hist;
    for (size_t k = 0; k < ops.size(); k++) {
        const Value& op = ops[k];
        if ((int)op.at("owner").as_int(0) % callers != owner)
            continue;
        if (callers > 1)
            sim::yield_point(); // interleave the owners' histories
        const std::string nm = op.at("op").as_str();
        Slot& dst            = pool.slots[owner * per + (int)op.at("dst").as_int(0) % per];
        Slot& src            = pool.slots[owner * per + (int)op.at("src").as_int(0) % per];
        const uint64_t seed  = op.at("seed").as_u64(1);
        hist += nm + ";";
        std::string ctx = fmt("owner %d after history [%s]", owner, hist.c_str());
        const bool src_ok = src.exists() && src.md.live && !src.md.moved_from && !src.md.defaulted;
        if (nm == "construct") {
            construct(dst, (int)op.at("kind").as_int(0), (int)op.at("n").as_int(2), seed);
        }
        else if (nm == "construct_sibling") {
            // a second object of the same kind, size and shape as src (see sibling_sparse)
            if (!src_ok || &src == &dst)
                continue;
            const bool sparse = src.kind == K_COO || src.kind == K_CSR || src.kind == K_LU;
            const int kind = src.kind, n = src.kind == K_TRI ? src.md.tri.n : src.md.n;
            if (sparse) {
                auto trip = src.md.trip;
                construct(dst, kind, n, seed, &trip);
            }
            else
                construct(dst, kind, n, seed);
        }
        else if (nm == "copy_default") {
            // copy of a default-constructed object must be a valid (empty) object
            int kind = (int)op.at("kind").as_int(0);
            dst.reset();
            dst.kind = kind;
            try {
            switch (kind) {
            case K_VEC: { Vector<double> a; dst.vec = std::make_unique<Vector<double>>(a); break; }
            case K_COO: { SparseMatrixCOO<double> a; dst.coo = std::make_unique<SparseMatrixCOO<double>>(a); break; }
            case K_CSR: { SparseMatrixCSR<double> a; dst.csr = std::make_unique<SparseMatrixCSR<double>>(a); break; }
            case K_LU: { SparseLUSolver<double> a; dst.lu = std::make_unique<SparseLUSolver<double>>(a); break; }
            case K_TRI: { SymmetricTridiagonalSolver<double> a; dst.tri = std::make_unique<SymmetricTridiagonalSolver<double>>(a); break; }
            default: { DiagonalSolver<double> a; dst.diag = std::make_unique<DiagonalSolver<double>>(a); }
            }
            }
            catch (const std::exception& e) {
                out.fail(fmt("C15.copy_of_default_constructed_fails:%s", kind_name(kind)),
                         fmt("copy construction of a default-constructed object threw %s; %s", e.what(), ctx.c_str()));
                dst.reset();
                continue;
            }
            dst.md.live      = true;
            dst.md.defaulted = true;
        }
        else if (nm == "copy_construct" || nm == "copy_assign" || nm == "move_construct" || nm == "move_assign") {
            if (!src_ok || &src == &dst)
                continue;
            const bool move = nm[0] == 'm', assign = nm.find("assign") != std::string::npos;
            long af = op.at("alloc_fail").as_int(0);
            if (af > 0 && !move && !is_asan()) {
                sim::AllocFaults& f = sim::alloc_faults();
                bool threw          = false;
                Model before        = src.md;
                f.fail_at           = af;
                f.armed             = true;
                try {
                    transfer(dst, src, move, assign);
                }
                catch (const std::bad_alloc&) {
                    threw = true;
                }
                f.armed   = false;
                f.fail_at = 0;
                if (threw) {
                    // the source is unchanged; the target can still be destroyed / assigned (nothing stronger)
                    src.md = before;
                    dst.reset();
                    observe(src, out, ctx + " (source after a failed copy)", seed);
                    continue;
                }
            }
            else
                transfer(dst, src, move, assign);
            observe(dst, out, ctx + fmt(" (target of %s of a %s that had solved %d times)", nm.c_str(),
                                         kind_name(dst.kind), dst.md.solves), seed);
            if (!move)
                observe(src, out, ctx + " (source after copy)", seed + 1);
        }
        else if (nm == "self_assign") {
            if (!src_ok)
                continue;
            FOR_KIND(src, { auto& ref = *P; *P = ref; });
            observe(src, out, ctx + " (after self copy-assignment)", seed);
        }
        else if (nm == "solve" || nm == "observe") {
            if (src_ok)
                observe(src, out, ctx, seed);
        }
        else if (nm == "modify") {
            // independence: changing one object must not change any other (checked by later observes)
            if (!src_ok)
                continue;
            if (src.kind == K_VEC && src.md.n > 0) {
                int i         = (int)(seed % (uint64_t)src.md.n);
                (*src.vec)[i] = src.md.vec[i] = 42.5 + (double)(seed % 7);
            }
            else if (src.kind == K_DIAG && src.md.n > 0) {
                int i                = (int)(seed % (uint64_t)src.md.n);
                src.diag->diagonal(i) = src.md.vec[i] = 3.25 + (double)(seed % 5);
            }
            else if (src.kind == K_COO && !src.md.trip.empty()) {
                int q             = (int)(seed % src.md.trip.size());
                src.coo->value(q) = std::get<2>(src.md.trip[q]) = 1.5 + (double)(seed % 3);
            }
        }
        else if (nm == "destroy") {
            dst.reset();
        }
    }
}

void run_pool(const Value& plan, Result& r)
{
    const int callers = (int)plan.at("callers").as_int(1);
    const int per     = (int)plan.at("per").as_int(2);
    r.signature = fmt("pool callers=%d per=%d ops=%zu h=%llx", callers, per, plan.at("ops").size(),
                      (unsigned long long)hash_bytes(plan.at("ops").dump().data(), plan.at("ops").dump().size()));
    r.nontrivial = plan.at("ops").size() >= 3;
    Pool pool;
    pool.slots.resize((size_t)callers * per);
    pool.fails.resize(callers);
    {
        SimRun sr(plan.at("sim"), r);
        omp_set_num_threads(plan.has("T") ? (int)plan.at("T").as_int(1) : 1);
        if (callers == 1)
            exec_owner(pool, plan, 0, 1);
        else {
            r.probe("caller_threads");
            sim::run_callers(callers, [&](int tid) { exec_owner(pool, plan, tid, callers); });
        }
        // final: every live object still equals its model (independence)
        for (int o = 0; o < callers; o++)
            for (int k = 0; k < per; k++)
                observe(pool.slots[(size_t)o * per + k], pool.fails[o], "final observation", 12345 + k);
    }
    for (const Value& op : plan.at("ops").a)
        r.probe("op:" + op.at("op").as_str());
    if (sim::alloc_faults().fired > 0)
        r.probe("fault:alloc_fail", sim::alloc_faults().fired), sim::alloc_faults().fired = 0;
    for (auto& f : pool.fails)
        for (auto& v : f.v)
            r.fail(v.cls, v.detail);
}

Registrar r1({"trisolve", "C14", "fast,trace,asan", gen_tri_plan, run_tri});
Registrar r2({"lapool", "C15", "fast,trace,asan", gen_pool, run_pool});

} // namespace
