// C01 -- solve() converges, and a reported convergence is true.   DESIGN.md section 6, C01.
#include "harness/solver_cfg.h"

using namespace hs;

namespace {

Value gen(uint64_t seed, const std::string& tier)
{
    Rng g(sim::mix(seed, 0xC01));
    long max_nodes = tier == "thorough" ? 257L * 512L : 65L * 128L + 1;
    if (is_trace())
        max_nodes = 33L * 64L;
    if (tier == "quick" && g.chance(0.08))
        max_nodes = 129L * 256L;
    SolverOpts o = gen_opts(g, max_nodes, true);
    Value p      = Value::object();
    p["opts"]    = o.to_json();
    p["sim"]     = gen_sim(g);
    // the calling program's own OpenMP thread setting (S2 in DESIGN 1): some regions of setup() (level caches, rhs build)
    // do not set the thread count themselves and inherit it
    p["icv"]     = g.chance(0.5) ? g.range(2, 16) : 1;
    return p;
}

void run(const Value& plan, Result& r)
{
    SolverOpts o = SolverOpts::from_json(plan.at("opts"));
    r.signature  = o.str();
    Problem fresh;
    auto s = new_solver(o, fresh);
    std::string out;
    int its = -1;
    double rho = 0;
    {
        CoutCapture cap;
        SimRun sr(plan.at("sim"), r);
        omp_set_num_threads((int)plan.at("icv").as_int(1));
        s->setup();
        s->solve();
        sr.finish();
        out = cap.str();
    }
    its = s->numberOfIterations();
    rho = s->meanResidualReductionFactor();
    const PolarGrid& grid = s->grid();
    const bool rate_set = grid.nr() >= 17 && grid.ntheta() >= 32 && o.extrapolation != 2 && o.pre >= 1 && o.post >= 1;
    r.nontrivial        = true;
    r.probe("solves");
    r.probe(fmt("extrapolation_%d", o.extrapolation));
    r.probe(fmt("cycle_%d", o.cycle));
    r.probe(o.fmg ? "fmg_on" : "fmg_off");
    r.probe(o.stencil ? "give" : "take");
    r.probe(o.dirbc ? "dirbc" : "across_origin");
    r.probe(fmt("levels_%d", GMGPolarVerifAccess::number_of_levels(*s)));
    if (o.aniso > 0)
        r.probe("anisotropic_grid");
    if (rate_set)
        r.probe("rate_set");
    if (!all_finite(s->solution())) {
        r.fail("C01.nonfinite_solution", "solution contains NaN/Inf: " + o.str());
        return;
    }
    std::vector<double> printed = parse_residual_norms(out);
    std::vector<double> norms   = GMGPolarVerifAccess::residual_norms(*s); // fresh object: this solve's history
    if (printed.size() != norms.size())
        r.fail("C01.history_length", fmt("printed %zu residual norms, recorded %zu", printed.size(), norms.size()));
    else
        for (size_t k = 0; k < norms.size(); k++)
            if (std::fabs(printed[k] - norms[k]) > 1e-5 * std::fabs(norms[k]) + 1e-300)
                r.fail("C01.printed_norm_differs", fmt("it %zu printed %g recorded %g", k, printed[k], norms[k]));
    if (rate_set) {
        // F9 (DESIGN 7): the cycle stagnates (rho ~ 0.94) on grids whose angular resolution is >= 8x the radial one.
        // F16: the V(1,1) cycle on >= 3 levels diverges for some non-circular geometries on an annulus (R0 >= 0.1) with the
        // Dirichlet treatment of the inner boundary (rho 1.2 with the shipped Shafranov parameters on 65x128; W, V(2,2),
        // fewer levels, a pin hole or the circular geometry converge).  Both are keyed by configuration, so that the
        // same verdict anywhere else is still an alarm.
        const bool over    = grid.ntheta() >= 8 * (grid.nr() - 1);
        const bool annulus = !over && o.cycle == 0 && o.pre == 1 && o.post == 1 && o.dirbc && o.R0 >= 0.1 &&
                             o.prob.geometry != 0 && GMGPolarVerifAccess::number_of_levels(*s) >= 3;
        if (over)
            r.probe("angularly_overrefined");
        if (annulus)
            r.probe("v11_on_annulus_noncircular");
        if (its >= o.max_iterations) {
            // Not an alarm when the residual has reached the rounding floor of its own evaluation: the requested
            // tolerance is then below what double precision can represent for this system (e.g. a relative tolerance
            // applied to an FMG start that is already accurate).
            IndepResidual fl = independent_residual(grid, o, s->solution(), nullptr);
            const double last = norms.empty() ? 0.0 : norms.back();
            r.maxim("stagnation_over_floor", last / (fl.bound + 1e-300));
            if (last <= fl.bound)
                r.probe("rounding_floor_reached");
            else
                r.fail(over ? "C01.not_converged.on_angularly_overrefined_grid"
                            : annulus ? "C01.not_converged.v11_on_annulus_noncircular" : "C01.not_converged",
                       fmt("no convergence within %d iterations (last ||r||=%g, first %g, rounding floor %g): %s",
                           o.max_iterations, last, norms.empty() ? -1.0 : norms.front(), fl.bound, o.str().c_str()));
        }
        if (its > 0 && !(rho < 1.0) && r.probes.count("rounding_floor_reached") == 0)
            r.fail(annulus ? "C01.reduction_factor_not_below_one.v11_on_annulus_noncircular"
                           : "C01.reduction_factor_not_below_one",
                   fmt("rho=%g its=%d: %s", rho, its, o.str().c_str()));
    }
    // "a reported convergence is true"
    if (its < o.max_iterations && !norms.empty()) {
        r.probe("stopped_early");
        Vector<double>& lib_rhs = GMGPolarVerifAccess::levels(*s)[0].rhs();
        IndepResidual ir        = independent_residual(grid, o, s->solution(), &lib_rhs);
        double r0               = norms.front();
        double allowed          = -1;
        if (o.rel_tol >= 0)
            allowed = std::max(allowed, o.rel_tol * r0);
        if (o.abs_tol >= 0)
            allowed = std::max(allowed, o.abs_tol);
        r.maxim("indep_over_allowed", ir.norm / (allowed + ir.bound));
        r.maxim("rhs_defect_units", ir.rhs_defect);
        if (ir.norm > allowed * (1 + 1e-12) + ir.bound)
            r.fail("C01.reported_stop_false",
                   fmt("solve() stopped after %d its but independent residual %.6e > tolerance %.6e (+bound %.2e); "
                       "reported last norm %.6e: %s",
                       its, ir.norm, allowed, ir.bound, norms.back(), o.str().c_str()));
        if (ir.rhs_defect > 1.0)
            r.fail("C01.rhs_mismatch", fmt("level-0 rhs differs from the reference discretised rhs by %.3g units of its "
                                           "rounding bound: %s",
                                           ir.rhs_defect, o.str().c_str()));
        // the independent norm must also agree with what the solver reported for the last iterate
        double rep = norms.back();
        if (std::fabs(rep - ir.norm) > ir.bound + 1e-12 * rep)
            r.fail("C01.reported_norm_differs",
                   fmt("reported ||r||=%.9e, independent %.9e, bound %.2e: %s", rep, ir.norm, ir.bound, o.str().c_str()));
    }
}

Registrar reg({"solve", "C01", "fast,trace,asan", gen, run});

} // namespace

/* ---------------------------------------------------------------------------------------------------------- */
/* C12: the solution after a fixed number of cycles is reproducible across schedules and (to rounding) across T */
/* ---------------------------------------------------------------------------------------------------------- */
namespace {

Value gen_repro_solve(uint64_t seed, const std::string& tier)
{
    Rng g(sim::mix(seed, 0xC125));
    SolverOpts o     = gen_opts(g, tier == "thorough" ? 129L * 256L : 65L * 128L + 1, true);
    o.aniso          = 0;
    o.max_iterations = g.range(1, 3);
    o.abs_tol        = 0.0; // never satisfied: exactly max_iterations cycles are run
    o.rel_tol        = -1.0;
    o.with_exact     = false;
    o.threads        = g.range(2, 16);
    Value p          = Value::object();
    p["opts"]        = o.to_json();
    p["sim"]         = gen_sim(g, false);
    static const int Ts[] = {1, 2, 3, 4, 8, 16, 32};
    p["T2"]               = Ts[g.below(7)];
    p["red2"]             = g.chance(0.5) ? 0.5 : 1.0;
    return p;
}

Vector<double> solve_once(const SolverOpts& o, const Value& simcfg, Result& r, int* levels = nullptr)
{
    Problem fresh;
    auto s = new_solver(o, fresh);
    CoutCapture cap;
    SimRun sr(simcfg, r);
    s->setup();
    s->solve();
    sr.finish();
    if (levels)
        *levels = GMGPolarVerifAccess::number_of_levels(*s);
    return s->solution();
}

void run_repro_solve(const Value& plan, Result& r)
{
    SolverOpts o = SolverOpts::from_json(plan.at("opts"));
    r.signature  = "repro_solve " + o.str();
    r.nontrivial = true;
    int levels   = 2;
    std::vector<Vector<double>> sols;
    for (int k = 0; k < 3; k++) {
        Value s          = plan.at("sim");
        s["shortfall_p"] = 0.0;
        s["sched_seed"]  = (long long)(sim::mix(plan.at("sim").at("sched_seed").as_u64(), 40 + k) >> 1);
        if (k == 1)
            s["policy"] = (int)sim::POL_RR;
        sols.push_back(solve_once(o, s, r, &levels));
    }
    if (r.sim.par_regions > 0)
        r.probe("multi_thread_region_executed");
    for (int k = 1; k < 3; k++) {
        int idx = -1;
        if (!bit_equal(sols[0], sols[k], &idx))
            r.fail("C12.solution_not_reproducible",
                   fmt("schedule %d vs 0 after %d cycles: index %d %.17g vs %.17g; %s", k, o.max_iterations, idx,
                       idx >= 0 ? sols[k][idx] : 0.0, idx >= 0 ? sols[0][idx] : 0.0, o.str().c_str()));
    }
    // another thread count / per-level reduction
    SolverOpts o2 = o;
    o2.threads    = (int)plan.at("T2").as_int(1);
    o2.reduction  = plan.at("red2").as_double(1.0);
    if (o2.threads != o.threads || o2.reduction != o.reduction) {
        Vector<double> u2 = solve_once(o2, canonical_sim(), r);
        r.probe(o2.threads == 1 ? "compared_with_T1" : "compared_with_T2");
        // compare in residual space
        Problem p = make_problem(o.prob);
        Problem keep;
        auto s = new_solver(o, keep);
        {
            CoutCapture cap;
            SimRun sr(canonical_sim(), r);
            s->setup();
        }
        model::RefOperator A;
        A.build(s->grid(), *p.geometry, *p.coeff, o.dirbc);
        std::vector<double> d(A.n), ad, um, f, absu;
        for (int m = 0; m < A.n; m++)
            d[m] = sols[0][A.to_grid[m]] - u2[A.to_grid[m]];
        A.apply(d, ad);
        A.to_model(sols[0], um);
        A.rhs(*p.source, *p.bc, f);
        A.apply_abs(um, absu);
        double sc = 0, got = 0;
        for (int m = 0; m < A.n; m++) {
            sc  = std::max(sc, absu[m] + std::fabs(f[m]));
            got = std::max(got, std::fabs(ad[m]));
        }
        double allowed = 16.0 * 96.0 * EPS * sc * o.max_iterations * (o.pre + o.post + 2) * (double)(1 << std::min(levels, 8));
        r.maxim("T_residual_diff_units", got / (allowed + 1e-300));
        if (!(got <= allowed))
            r.fail("C12.thread_count_changes_solution",
                   fmt("T=%d/red=%g vs T=%d/red=%g after %d cycles: ||A(u-u')||_inf = %.3e > %.3e; %s", o.threads,
                       o.reduction, o2.threads, o2.reduction, o.max_iterations, got, allowed, o.str().c_str()));
    }
}

Registrar reg2({"repro_solve", "C12", "fast", gen_repro_solve, run_repro_solve});

} // namespace
