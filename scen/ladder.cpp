// C02 -- second-order accuracy, implicit extrapolation raises the order.  Decided on the recorded histories of simulated
// solver runs over refinement ladders (the shipped convergence_order pattern on a REUSED object, and fresh objects).
#include "harness/solver_cfg.h"

using namespace hs;

namespace {

Value gen(uint64_t seed, const std::string& tier)
{
    Rng g(sim::mix(seed, 0xC02));
    SolverOpts o;
    o.prob = gen_problem(g, true, false);
    // with the Dirichlet treatment the hole may be sizeable (annular domains: the circle/radial split then sits at its
    // lower bound on several levels)
    static const double R0s[] = {1e-8, 1e-5, 1e-3, 0.1, 0.3, 0.5};
    o.R0             = R0s[g.below(6)];
    o.nr_exp         = 4;
    o.ntheta_exp     = -1;
    // uniform base grid, or an anisotropically refined one (what the shipped convergence study uses); the ladder then
    // refines it uniformly with divideBy2
    o.aniso          = g.chance(0.5) ? 0 : g.range(1, 3);
    o.divideBy2      = 0;
    o.dirbc          = g.chance(0.5);
    // the across-origin closure models a full disk: it is only a discretisation of the stated PDE for R0 -> 0
    // (documented default 1e-5, convergence_order uses 1e-8); finite holes are run with the Dirichlet treatment
    if (!o.dirbc) {
        static const double small[] = {1e-8, 1e-6, 1e-5};
        o.R0                        = small[g.below(3)];
    }
    o.stencil        = g.chance(0.5) ? 1 : 0;
    o.cache_coeff    = o.stencil == 0 ? true : g.chance(0.5);
    o.cache_geo      = o.stencil == 0 ? true : g.chance(0.5);
    o.extrapolation  = g.chance(0.5) ? 1 : 0;
    o.cycle          = g.range(0, 2);
    o.fmg            = g.chance(0.6);
    o.fmg_iterations = g.range(1, 3);
    o.fmg_cycle      = g.range(0, 2);
    o.max_levels     = g.chance(0.6) ? -1 : g.range(3, 6);
    o.pre            = g.range(1, 2);
    o.post           = g.range(1, 2);
    o.norm_type      = 1;
    o.abs_tol        = -1;
    o.rel_tol        = 1e-11;
    o.max_iterations = 300;
    o.threads        = g.range(1, 4);
    if (o.cycle == 1 && (o.max_levels < 0 || o.max_levels > 4))
        o.max_levels = g.range(3, 4); // a W-cycle visits the coarsest level 2^L times: keep the simulated cost bounded
    o.reduction      = g.chance(0.5) ? 1.0 : 0.5;
    o.with_exact     = true;
    o.verbose        = 0;
    Value p          = Value::object();
    p["opts"]        = o.to_json();
    // 17x32 ... 129x256 (quick) / 257x512 (thorough); an anisotropic base grid has about twice the radial nodes, so it
    // gets one rung less for the same cost
    p["rungs"]       = (tier == "thorough" ? 5 : 4) - (o.aniso > 0 ? 1 : 0);
    p["reuse"]       = g.chance(0.5); // one object through the whole ladder (convergence_order pattern) or fresh objects
    p["both"]        = true; // also solve the other extrapolation mode on the finest common rung
    p["sim"]         = gen_sim(g);
    return p;
}

struct Rung {
    int nr = 0, nt = 0, its = 0;
    double e2 = 0, einf = 0, lib_e2 = 0, lib_einf = 0, last_res = 0, first_res = 0;
    bool converged = false;
};

Rung measure(GMGPolar& s, const SolverOpts& o, const Problem& prob)
{
    Rung q;
    const PolarGrid& g = s.grid();
    q.nr  = g.nr();
    q.nt  = g.ntheta();
    q.its = s.numberOfIterations();
    q.converged = q.its < o.max_iterations;
    long double s2 = 0;
    double mx = 0;
    for (int i = 0; i < g.nr(); i++)
        for (int j = 0; j < g.ntheta(); j++) {
            double ue = prob.exact->exact_solution(g.radius(i), g.theta(j), std::sin(g.theta(j)), std::cos(g.theta(j)));
            double d  = s.solution()[g.index(i, j)] - ue;
            s2 += (long double)d * d;
            mx = std::max(mx, std::fabs(d));
        }
    q.e2   = std::sqrt((double)s2) / std::sqrt((double)g.numberOfNodes());
    q.einf = mx;
    auto a = s.exactErrorWeightedEuclidean();
    auto b = s.exactErrorInfinity();
    q.lib_e2   = a.has_value() ? *a : -1;
    q.lib_einf = b.has_value() ? *b : -1;
    const std::vector<double>& rn = GMGPolarVerifAccess::residual_norms(s);
    if (!rn.empty()) {
        q.first_res = rn.front();
        q.last_res  = rn.back();
    }
    return q;
}

std::vector<Rung> run_ladder(SolverOpts o, int rungs, bool reuse, const Value& simcfg, Result& r)
{
    std::vector<Rung> out;
    Problem keep;
    std::unique_ptr<GMGPolar> s;
    for (int k = 0; k < rungs; k++) {
        o.divideBy2 = k;
        if (!reuse || !s)
            s = new_solver(o, keep);
        else
            s->divideBy2(k);
        {
            CoutCapture cap;
            SimRun sr(simcfg, r);
            try {
                s->setup();
                s->solve();
            }
            catch (const std::exception&) {
                r.probe("grid_parameters_rejected"); // e.g. the refined region does not fit: not a ladder
                out.clear();
                return out;
            }
        }
        out.push_back(measure(*s, o, keep));
    }
    return out;
}

void run(const Value& plan, Result& r)
{
    SolverOpts o    = SolverOpts::from_json(plan.at("opts"));
    const int rungs = (int)plan.at("rungs").as_int(4);
    const bool reuse = plan.at("reuse").as_bool(false);
    r.signature = fmt("ladder rungs=%d reuse=%d ", rungs, (int)reuse) + o.str();
    std::vector<Rung> L = run_ladder(o, rungs, reuse, plan.at("sim"), r);
    if (L.size() < 2)
        return;
    r.nontrivial = true;
    r.probe(o.aniso ? "anisotropic_base_grid" : "uniform_base_grid");
    if (o.R0 >= 0.3)
        r.probe("annular_domain");
    r.probe(o.extrapolation ? "extrapolated_ladder" : "plain_ladder");
    r.probe(reuse ? "reused_object" : "fresh_objects");
    r.probe(fmt("geometry_%d", o.prob.geometry));
    r.probe(fmt("problem_%d", o.prob.problem));
    std::string tab;
    for (size_t k = 0; k < L.size(); k++)
        tab += fmt("[%dx%d its=%d e2=%.3e einf=%.3e]", L[k].nr, L[k].nt, L[k].its, L[k].e2, L[k].einf);
    // the library's own error figures agree with the harness's evaluation of the returned solution
    for (size_t k = 0; k < L.size(); k++)
        if (L[k].converged && L[k].lib_e2 >= 0 &&
            (std::fabs(L[k].lib_e2 - L[k].e2) > 1e-9 * L[k].e2 + 1e-300 ||
             std::fabs(L[k].lib_einf - L[k].einf) > 1e-9 * L[k].einf + 1e-300))
            r.fail("C02.reported_error_differs",
                   fmt("rung %zu: exactError (%.12e, %.12e) vs solution()-exact (%.12e, %.12e); %s", k, L[k].lib_e2,
                       L[k].lib_einf, L[k].e2, L[k].einf, r.signature.c_str()));
    // orders on the finest rungs, only where both solves converged and the error is far above the algebraic level
    const size_t K = L.size();
    const Rung &a = L[K - 2], &b = L[K - 1];
    bool judged = a.converged && b.converged && b.e2 > 0 && b.einf > 0;
    // algebraic level: the achieved relative residual reduction times the first error is a safe over-estimate
    if (judged) {
        double p2   = std::log2(a.e2 / b.e2);
        double pinf = std::log2(a.einf / b.einf);
        r.maxim(o.extrapolation ? "neg_order_e2_ex" : "neg_order_e2_plain", -p2);
        r.maxim(o.extrapolation ? "neg_order_einf_ex" : "neg_order_einf_plain", -pinf);
        r.probe("order_judged");
        // a two-rung ratio estimates the asymptotic order with a pre-asymptotic deviation: 0.15 is allowed for it
        const double need = o.extrapolation ? 3.0 - 0.15 : 2.0 - 0.15;
        if (!(p2 > need))
            r.fail(o.extrapolation ? "C02.order_not_above_three:weighted_euclidean" : "C02.order_below_two:weighted_euclidean",
                   fmt("order %.2f on the finest pair; %s %s", p2, tab.c_str(), r.signature.c_str()));
        // F15 (DESIGN 7): on an anisotropically refined base grid the maximum-norm order of the extrapolated solution
        // sags below 3 on fine rungs (2.8 measured at 129x256 and 257x512; the weighted Euclidean order stays > 3.5).
        // Keyed by base grid and by a mild shortfall (>= 2.5), so that a lost order is still an alarm.
        const bool f15 = o.extrapolation && o.aniso > 0 && pinf >= 2.5;
        if (!(pinf > need))
            r.fail(f15 ? "C02.order_not_above_three:maximum[anisotropic_base_grid,order>=2.5]"
                   : o.extrapolation ? "C02.order_not_above_three:maximum" : "C02.order_below_two:maximum",
                   fmt("order %.2f on the finest pair; %s %s", pinf, tab.c_str(), r.signature.c_str()));
    }
    else
        r.probe("order_not_judged");
    // on the same grid the extrapolated solution is more accurate once the mesh resolves the solution
    if (plan.at("both").as_bool(true)) {
        SolverOpts o2    = o;
        o2.extrapolation = o.extrapolation ? 0 : 1;
        o2.divideBy2     = rungs - 1;
        Problem keep;
        auto s2 = new_solver(o2, keep);
        {
            CoutCapture cap;
            SimRun sr(plan.at("sim"), r);
            s2->setup();
            s2->solve();
        }
        Rung c = measure(*s2, o2, keep);
        const Rung& ex    = o.extrapolation ? b : c;
        const Rung& plain = o.extrapolation ? c : b;
        if (ex.converged && plain.converged) {
            r.probe("extrapolated_vs_plain_compared");
            r.maxim("ex_over_plain_e2", ex.e2 / plain.e2);
            r.maxim("ex_over_plain_einf", ex.einf / plain.einf);
            if (!(ex.e2 < plain.e2))
                r.fail("C02.extrapolated_not_more_accurate:weighted_euclidean",
                       fmt("finest rung %dx%d: extrapolated %.3e vs plain %.3e; %s", b.nr, b.nt, ex.e2, plain.e2,
                           r.signature.c_str()));
            if (!(ex.einf < plain.einf))
                r.fail("C02.extrapolated_not_more_accurate:maximum",
                       fmt("finest rung %dx%d: extrapolated %.3e vs plain %.3e; %s", b.nr, b.nt, ex.einf, plain.einf,
                           r.signature.c_str()));
        }
    }
}

Registrar reg({"ladder", "C02", "fast", gen, run});

} // namespace
