// C10 -- each multigrid cycle is a consistent correction scheme, and
// C09 (part B) -- the FMG start-up is the documented nested iteration and a function of the problem data only.
// Both drive private members through the guarded accessor (GMGPOLAR_VERIF) and vary the object's HISTORY
// (junk-filled work vectors, previous cycles, previous solves).
#include "harness/solver_cfg.h"
#include <functional>

using namespace hs;
typedef GMGPolarVerifAccess ACC;

namespace {

const double CB = 8.0, MB = 12.0;

SolverOpts small_opts(Rng& g, int ex_choices)
{
    SolverOpts o = gen_opts(g, 33L * 64L + 1, true);
    o.aniso      = 0;
    o.divideBy2  = 0;
    o.nr_exp     = g.range(3, 6);
    o.ntheta_exp = g.chance(0.5) ? -1 : g.range(3, 6);
    o.R0         = g.chance(0.5) ? 1e-5 : (g.chance(0.5) ? 1e-3 : 0.1);
    o.threads    = g.chance(0.3) ? 1 : g.range(2, 8);
    o.extrapolation = g.chance(0.4) ? 0 : (ex_choices == 2 ? 1 : g.range(1, 3));
    o.max_levels    = g.chance(0.3) ? -1 : g.range(2, 5);
    o.with_exact    = true;
    o.verbose       = 0;
    return o;
}

void fill_scratch_with_junk(GMGPolar& s, const SolverOpts& o, uint64_t seed, int kind, bool keep_level0_solution)
{
    std::vector<Level>& lv = ACC::levels(s);
    for (size_t l = 0; l < lv.size(); l++) {
        if (!(l == 0 && keep_level0_solution))
            fill_junk(lv[l].solution(), seed + 10 * l + 1, kind);
        fill_junk(lv[l].residual(), seed + 10 * l + 2, kind);
        if (lv[l].error_correction().size() > 0)
            fill_junk(lv[l].error_correction(), seed + 10 * l + 3, kind);
        // rhs vectors are inputs (built by setup) where they exist: level 0, level 1 with extrapolation, all with FMG
    }
    (void)o;
}

struct Obj {
    std::unique_ptr<GMGPolar> s;
    Problem keep;
    bool ok = false;
    std::string err;
};
Obj make_setup(const SolverOpts& o, Result& r)
{
    Obj ob;
    ob.s = new_solver(o, ob.keep);
    CoutCapture cap;
    SimRun sr(canonical_sim(), r);
    try {
        ob.s->setup();
        ob.ok = true;
    }
    catch (const std::exception& e) {
        ob.err = e.what();
    }
    return ob;
}

/* ======================================================================================================== */
/* C10                                                                                                      */
/* ======================================================================================================== */
Value gen_cycles(uint64_t seed, const std::string& tier)
{
    Rng g(sim::mix(seed, 0xC10));
    SolverOpts o = small_opts(g, 4);
    o.fmg        = g.chance(0.45);
    o.pre        = g.range(0, 3);
    o.post       = g.range(0, 3);
    Value p      = Value::object();
    p["opts"]    = o.to_json();
    p["cycle"]   = g.range(0, 2);
    // 0 fixed point (depth 0), 1 two-level algebraic correction, 2 junk / history independence,
    // 3 equals the textbook recursion assembled from the public operators, 4 fixed point when entered at depth d >= 1
    p["mode"]    = g.range(0, 4);
    p["depth"]   = g.range(1, 3);
    p["junk"]    = g.range(0, 3);
    p["seed_u"]  = (long long)(g.next() >> 1);
    p["kind_u"]  = g.range(0, 1);
    p["sim"]     = gen_sim(g);
    return p;
}

// exact solution of the system the (extrapolated) cycle iterates on, model numbering
bool discrete_solution(const model::RefOperator& A, const std::vector<double>& f, bool extrapolated,
                       const model::RefOperator* Ac, const std::vector<double>* fc, std::vector<double>& u)
{
    if (!extrapolated)
        return A.solve(f, u);
    // rows of fine-only nodes: (A u)_i = f_i ; rows of coarse nodes: (4 A - A_c o inject) u = 4 f - f_c
    std::vector<model::SparseRow> rows(A.n);
    std::vector<double> rhs(A.n);
    for (int i = 0; i < A.nr; i++)
        for (int j = 0; j < A.ntheta; j++) {
            int m = A.id(i, j);
            if ((i & 1) || (j & 1)) {
                rows[m] = A.rows[m];
                rhs[m]  = f[m];
            }
            else {
                model::SparseRow row;
                for (size_t q = 0; q < A.rows[m].col.size(); q++) {
                    row.col.push_back(A.rows[m].col[q]);
                    row.val.push_back(4.0 * A.rows[m].val[q]);
                }
                int mc = Ac->id(i / 2, j / 2);
                for (size_t q = 0; q < Ac->rows[mc].col.size(); q++) {
                    int cc = Ac->rows[mc].col[q];
                    int fi = A.id(2 * (cc / Ac->ntheta), 2 * (cc % Ac->ntheta));
                    bool found = false;
                    for (size_t p = 0; p < row.col.size(); p++)
                        if (row.col[p] == fi) {
                            row.val[p] -= Ac->rows[mc].val[q];
                            found = true;
                        }
                    if (!found) {
                        row.col.push_back(fi);
                        row.val.push_back(-Ac->rows[mc].val[q]);
                    }
                }
                rows[m] = row;
                rhs[m]  = 4.0 * f[m] - (*fc)[mc];
            }
        }
    model::BandedLU lu;
    if (!lu.factor(rows))
        return false;
    std::vector<long double> v(rhs.begin(), rhs.end());
    lu.solve(v);
    u.resize(A.n);
    for (int m = 0; m < A.n; m++)
        u[m] = (double)v[m];
    return true;
}

void run_cycles(const Value& plan, Result& r)
{
    SolverOpts o    = SolverOpts::from_json(plan.at("opts"));
    const int ctype = (int)plan.at("cycle").as_int(0);
    const int mode  = (int)plan.at("mode").as_int(0);
    const bool ex   = o.extrapolation != 0;
    static const char* cn[] = {"V", "W", "F"};
    r.signature = fmt("cycle=%s%s mode=%d ", cn[ctype], ex ? "_extrapolated" : "", mode) + o.str();
    if (mode == 1) {
        o.max_levels = 2;
        o.pre = o.post = 0;
    }
    Obj a = make_setup(o, r);
    if (!a.ok) {
        r.signature += " [setup rejected: " + a.err + "]";
        return;
    }
    GMGPolar& s            = *a.s;
    std::vector<Level>& lv = ACC::levels(s);
    const int L            = ACC::number_of_levels(s);
    const PolarGrid& g0    = lv[0].grid();
    const int n            = g0.numberOfNodes();
    r.probe(fmt("levels_%d", L));
    r.probe(fmt("cycle_%s%s", cn[ctype], ex ? "_ex" : ""));
    r.probe(fmt("mode_%d", mode));
    if (o.pre == 0 && o.post == 0)
        r.probe("no_smoothing");
    Problem prob = make_problem(o.prob);
    model::RefOperator A;
    A.build(g0, *prob.geometry, *prob.coeff, o.dirbc);
    std::vector<double> f;
    A.rhs(*prob.source, *prob.bc, f);

    auto one_cycle = [&](GMGPolar& obj, const Value& simcfg) {
        Level& l0 = ACC::levels(obj)[0];
        SimRun sr(simcfg, r);
        ACC::cycle(obj, ctype, ex, 0, l0.solution(), l0.rhs(), l0.residual());
    };

    if (mode == 3) {
        /* (d) the cycle equals the textbook recursion (V: one, W: two recursive calls, F: F then V; pre-smooth, restrict
           the (extrapolated) residual, recurse or solve directly, prolongate, correct, post-smooth) assembled by the
           harness from the PUBLIC operators of the object's levels.  Covers what the fixed-point test cannot see: the
           second visit of a coarse level with a non-zero iterate. */
        Interpolation& I = ACC::interpolation(s);
        const bool fgs   = ACC::full_grid_smoothing(s);
        std::function<void(int, int, bool, Vector<double>&, const Vector<double>&)> ref;
        ref = [&](int d, int type, bool exl, Vector<double>& u, const Vector<double>& f) {
            Level& l  = lv[d];
            Level& nl = lv[d + 1];
            const int nd = l.grid().numberOfNodes(), nn = nl.grid().numberOfNodes();
            Vector<double> tmp(nd), res(nd), rc(nn);
            auto smooth = [&]() {
                if (d == 0 && exl && !fgs)
                    l.extrapolatedSmoothing(u, f, tmp);
                else
                    l.smoothing(u, f, tmp);
            };
            for (int i = 0; i < o.pre; i++)
                smooth();
            l.computeResidual(res, f, u);
            if (exl) {
                Vector<double> uc(nn), rcc(nn);
                I.applyExtrapolatedRestriction(l, nl, rc, res);
                I.applyInjection(l, nl, uc, u);
                nl.computeResidual(rcc, nl.rhs(), uc);
                linear_combination(rc, 4.0 / 3.0, rcc, -1.0 / 3.0);
            }
            else
                I.applyRestriction(l, nl, rc, res);
            Vector<double> e(nn);
            if (d + 1 == L - 1) {
                e = rc;
                nl.directSolveInPlace(e);
            }
            else {
                assign(e, 0.0);
                if (type == 0)
                    ref(d + 1, 0, false, e, rc);
                else if (type == 1) {
                    ref(d + 1, 1, false, e, rc);
                    ref(d + 1, 1, false, e, rc);
                }
                else {
                    ref(d + 1, 2, false, e, rc);
                    ref(d + 1, 0, false, e, rc);
                }
            }
            Vector<double> corr(nd);
            if (exl)
                I.applyExtrapolatedProlongation(nl, l, corr, e);
            else
                I.applyProlongation(nl, l, corr, e);
            add(u, corr);
            for (int i = 0; i < o.post; i++)
                smooth();
        };
        Vector<double> u0 = rand_vector(n, plan.at("seed_u").as_u64(), (int)plan.at("kind_u").as_int(0), 1.0, &g0);
        Vector<double> want = u0;
        {
            SimRun sr(canonical_sim(), r);
            ref(0, ctype, ex, want, lv[0].rhs());
        }
        // the object's own cycle, on a second object so that the reference's lazily factorised smoothers do not matter
        Obj b2 = make_setup(o, r);
        if (!b2.ok)
            return;
        ACC::full_grid_smoothing(*b2.s)    = fgs;
        ACC::levels(*b2.s)[0].solution() = u0;
        fill_scratch_with_junk(*b2.s, o, plan.at("seed_u").as_u64() + 3, (int)plan.at("junk").as_int(0), true);
        one_cycle(*b2.s, plan.at("sim"));
        r.nontrivial = true;
        const Vector<double>& got = ACC::levels(*b2.s)[0].solution();
        double sc = std::max(max_abs(want), max_abs(u0)), worst = 0;
        int wi = -1;
        for (int i = 0; i < n; i++) {
            double dd = std::fabs(got[i] - want[i]);
            if (std::isnan(dd) && !(std::isnan(got[i]) && std::isnan(want[i])))
                dd = INFINITY;
            if (dd > worst) {
                worst = dd;
                wi    = i;
            }
        }
        if (!all_finite(want)) {
            r.probe("reference_not_finite"); // e.g. no smoothing at all on many levels may overflow: nothing to compare
            return;
        }
        double allowed = 256.0 * EPS * sc * (double)(1 << std::min(L, 6));
        r.maxim("recursion_units", worst / (allowed + 1e-300));
        if (!(worst <= allowed))
            r.fail(fmt("C10.cycle_differs_from_textbook_recursion:%s%s", cn[ctype], ex ? "_extrapolated" : ""),
                   fmt("levels=%d pre=%d post=%d: index %d cycle %.17g, recursion from public operators %.17g; %s", L,
                       o.pre, o.post, wi, wi >= 0 ? got[wi] : 0.0, wi >= 0 ? want[wi] : 0.0, r.signature.c_str()));
        return;
    }
    if (mode == 4) {
        /* (e) the plain cycles are also entered at depth d >= 1 (the FMG start-up does): started from the exact solution
           of level d's discrete system they must return it unchanged */
        int d = (int)plan.at("depth").as_int(1);
        if (!o.fmg || L < 3) {
            r.signature += " [needs FMG right-hand sides and >= 3 levels]";
            return;
        }
        d = std::min(d, L - 2);
        const PolarGrid& gd = lv[d].grid();
        if (gd.numberOfNodes() > 2700)
            return;
        model::RefOperator Ad;
        Ad.build(gd, *prob.geometry, *prob.coeff, o.dirbc);
        std::vector<double> fd, ud;
        Ad.rhs(*prob.source, *prob.bc, fd);
        // the level's discretised right-hand side equals the reference one
        for (int m = 0; m < Ad.n; m++)
            if (std::fabs(fd[m] - lv[d].rhs()[Ad.to_grid[m]]) > 32 * EPS * std::fabs(fd[m]) + 1e-300) {
                r.fail("C10.coarse_rhs_differs_from_reference", fmt("level %d node %d; %s", d, m, r.signature.c_str()));
                break;
            }
        if (!Ad.solve(fd, ud)) {
            r.fail("model.singular", r.signature);
            return;
        }
        Ad.to_lib(ud, lv[d].solution());
        // dirty scratch from a previous cycle at this depth
        fill_scratch_with_junk(s, o, plan.at("seed_u").as_u64(), (int)plan.at("junk").as_int(0), false);
        Ad.to_lib(ud, lv[d].solution());
        {
            SimRun sr(plan.at("sim"), r);
            ACC::cycle(s, ctype, false, d, lv[d].solution(), lv[d].rhs(), lv[d].residual());
        }
        r.nontrivial = true;
        r.probe(fmt("entered_at_depth_%d", d));
        std::vector<double> u1, dd(Ad.n), Adv, absu;
        Ad.to_model(lv[d].solution(), u1);
        bool finite = true;
        for (int m = 0; m < Ad.n; m++) {
            dd[m] = u1[m] - ud[m];
            if (!std::isfinite(u1[m]))
                finite = false;
        }
        Ad.apply(dd, Adv);
        Ad.apply_abs(ud, absu);
        double sc = 0, got = 0;
        for (int m = 0; m < Ad.n; m++) {
            sc  = std::max(sc, absu[m] + std::fabs(fd[m]));
            got = std::max(got, std::fabs(Adv[m]));
        }
        double allowed = CB * MB * EPS * sc * 16.0 * (o.pre + o.post + 2) * (double)(1 << std::min(L, 6));
        r.maxim("fixed_point_units_depth", got / (allowed + 1e-300));
        if (!finite || !(got <= allowed))
            r.fail(fmt("C10.exact_solution_not_fixed_point_at_depth:%s", cn[ctype]),
                   fmt("entered at depth %d of %d levels: ||A_d (cycle(u*) - u*)||_inf = %.3e > %.3e; %s", d, L, got,
                       allowed, r.signature.c_str()));
        return;
    }
    if (mode == 0) {
        /* (a) started from the exact solution of the system it iterates on, a cycle returns it unchanged */
        if (n > 2700 || (ex && n > 1400)) {
            r.signature += " [too large for the dense reference]";
            return;
        }
        // with full-grid smoothing on level 0 the extrapolated cycle has no common fixed point (documented: mode 2 is
        // not residual-convergent): use extrapolated smoothing
        if (ex)
            ACC::full_grid_smoothing(s) = false;
        if (ex && o.extrapolation == 2) {
            r.signature += " [mode 2 has no fixed point: skipped]";
            return;
        }
        model::RefOperator Ac;
        std::vector<double> fc, ustar;
        if (ex) {
            Ac.build(lv[1].grid(), *prob.geometry, *prob.coeff, o.dirbc);
            Ac.rhs(*prob.source, *prob.bc, fc);
        }
        if (!discrete_solution(A, f, ex, ex ? &Ac : nullptr, ex ? &fc : nullptr, ustar)) {
            r.fail("model.singular", r.signature);
            return;
        }
        A.to_lib(ustar, lv[0].solution());
        fill_scratch_with_junk(s, o, plan.at("seed_u").as_u64(), (int)plan.at("junk").as_int(0), true);
        one_cycle(s, plan.at("sim"));
        r.nontrivial = true;
        // unchanged in residual space: the (extrapolated) residual of the result is at rounding level
        std::vector<double> u1, d(n), Ad, absu;
        A.to_model(lv[0].solution(), u1);
        bool finite = true;
        for (int m = 0; m < n; m++) {
            d[m] = u1[m] - ustar[m];
            if (!std::isfinite(u1[m]))
                finite = false;
        }
        A.apply(d, Ad);
        A.apply_abs(ustar, absu);
        double sc = 0, got = 0;
        for (int m = 0; m < n; m++) {
            sc  = std::max(sc, absu[m] + std::fabs(f[m]));
            got = std::max(got, std::fabs(Ad[m]));
        }
        // every smoothing sweep and every level contributes one rounding-level perturbation
        double allowed = CB * MB * EPS * sc * 16.0 * (o.pre + o.post + 2) * (double)(1 << std::min(L, 6));
        r.maxim("fixed_point_units", got / (allowed + 1e-300));
        if (!finite || !(got <= allowed))
            r.fail(fmt("C10.exact_solution_not_fixed_point:%s%s", cn[ctype], ex ? "_extrapolated" : ""),
                   fmt("||A (cycle(u*) - u*)||_inf = %.3e > %.3e (finite=%d); %s", got, allowed, (int)finite,
                       r.signature.c_str()));
        return;
    }

    // a seeded iterate
    Vector<double> u0 = rand_vector(n, plan.at("seed_u").as_u64(), (int)plan.at("kind_u").as_int(0), 1.0, &g0);
    if (mode == 1) {
        /* (b) two levels, no smoothing: the cycle equals the algebraic coarse-grid correction from public operators */
        if (L != 2) {
            r.signature += " [not a two-level hierarchy]";
            return;
        }
        Interpolation& I = ACC::interpolation(s);
        Level &l0 = lv[0], &l1 = lv[1];
        const int nc = l1.grid().numberOfNodes();
        Vector<double> want = u0;
        {
            SimRun sr(canonical_sim(), r);
            Vector<double> res(n), rc(nc), corr(n);
            l0.computeResidual(res, l0.rhs(), u0);
            if (!ex) {
                I.applyRestriction(l0, l1, rc, res);
            }
            else {
                Vector<double> uc(nc), rcc(nc);
                I.applyExtrapolatedRestriction(l0, l1, rc, res);
                I.applyInjection(l0, l1, uc, u0);
                l1.computeResidual(rcc, l1.rhs(), uc);
                linear_combination(rc, 4.0 / 3.0, rcc, -1.0 / 3.0);
            }
            l1.directSolveInPlace(rc);
            if (!ex)
                I.applyProlongation(l1, l0, corr, rc);
            else
                I.applyExtrapolatedProlongation(l1, l0, corr, rc);
            add(want, corr);
        }
        l0.solution() = u0;
        fill_scratch_with_junk(s, o, plan.at("seed_u").as_u64() + 5, (int)plan.at("junk").as_int(0), true);
        one_cycle(s, plan.at("sim"));
        r.nontrivial = true;
        double sc = std::max(max_abs(want), max_abs(u0)), worst = 0;
        int wi = -1;
        for (int i = 0; i < n; i++) {
            double dd = std::fabs(l0.solution()[i] - want[i]);
            if (std::isnan(dd))
                dd = INFINITY;
            if (dd > worst) {
                worst = dd;
                wi    = i;
            }
        }
        // same operators on the same data: differences can only come from the order of a few additions
        double allowed = 64.0 * EPS * sc;
        r.maxim("cgc_units", worst / (allowed + 1e-300));
        if (!(worst <= allowed))
            r.fail(fmt("C10.two_level_cycle_not_coarse_grid_correction:%s%s", cn[ctype], ex ? "_extrapolated" : ""),
                   fmt("index %d: cycle %.17g, u + P A_c^-1 R (f - A u) = %.17g; %s", wi, wi >= 0 ? l0.solution()[wi] : 0.0,
                       wi >= 0 ? want[wi] : 0.0, r.signature.c_str()));
        return;
    }

    /* (c) junk independence and history independence, bitwise under the canonical schedule */
    Obj b2 = make_setup(o, r);
    if (!b2.ok)
        return;
    const bool fgs = ACC::full_grid_smoothing(s);
    lv[0].solution()                = u0;
    ACC::levels(*b2.s)[0].solution() = u0;
    fill_scratch_with_junk(*b2.s, o, plan.at("seed_u").as_u64() + 9, (int)plan.at("junk").as_int(0), true);
    one_cycle(s, canonical_sim());
    one_cycle(*b2.s, canonical_sim());
    r.nontrivial = true;
    int idx      = -1;
    if (!bit_equal(lv[0].solution(), ACC::levels(*b2.s)[0].solution(), &idx))
        r.fail(fmt("C10.cycle_reads_stale_scratch:%s%s", cn[ctype], ex ? "_extrapolated" : ""),
               fmt("junk in the scratch vectors changes the result at index %d: %.17g vs %.17g; %s", idx,
                   idx >= 0 ? lv[0].solution()[idx] : 0.0, idx >= 0 ? ACC::levels(*b2.s)[0].solution()[idx] : 0.0,
                   r.signature.c_str()));
    // second cycle on the used object == first cycle of a fresh object started from the same iterate
    Vector<double> u1 = lv[0].solution();
    if (all_finite(u1)) {
        Obj c3 = make_setup(o, r);
        if (c3.ok) {
            ACC::full_grid_smoothing(*c3.s)  = ACC::full_grid_smoothing(s);
            ACC::levels(*c3.s)[0].solution() = u1;
            one_cycle(s, canonical_sim());
            one_cycle(*c3.s, canonical_sim());
            r.probe("history_compared");
            if (!bit_equal(lv[0].solution(), ACC::levels(*c3.s)[0].solution(), &idx))
                r.fail(fmt("C10.cycle_depends_on_previous_cycle:%s%s", cn[ctype], ex ? "_extrapolated" : ""),
                       fmt("second cycle of a used object differs from the first cycle of a fresh object at index %d: "
                           "%.17g vs %.17g; %s",
                           idx, idx >= 0 ? lv[0].solution()[idx] : 0.0,
                           idx >= 0 ? ACC::levels(*c3.s)[0].solution()[idx] : 0.0, r.signature.c_str()));
        }
    }
    (void)fgs;
    // the same cycle under the plan's (random) schedule: bit-identical to the canonical one (C12 share)
    Obj d4 = make_setup(o, r);
    if (d4.ok) {
        ACC::levels(*d4.s)[0].solution() = u0;
        Value sc         = plan.at("sim");
        sc["shortfall_p"] = 0.0;
        one_cycle(*d4.s, sc);
        if (!bit_equal(u1, ACC::levels(*d4.s)[0].solution(), &idx))
            r.fail(fmt("C10.cycle_schedule_dependent:%s%s", cn[ctype], ex ? "_extrapolated" : ""),
                   fmt("index %d; %s", idx, r.signature.c_str()));
    }
}

/* ======================================================================================================== */
/* C09 part B: FMG start-up                                                                                 */
/* ======================================================================================================== */
Value gen_fmgstart(uint64_t seed, const std::string& tier)
{
    Rng g(sim::mix(seed, 0xC09B));
    SolverOpts o     = small_opts(g, 4);
    o.fmg            = true;
    o.fmg_iterations = g.range(0, 3);
    o.fmg_cycle      = g.range(0, 2);
    o.max_iterations = 0; // start-up only
    o.max_levels     = g.chance(0.25) ? -1 : g.range(2, 6);
    if (g.chance(0.4))
        o.nr_exp = g.range(4, 6);
    Value p      = Value::object();
    p["opts"]    = o.to_json();
    p["junk"]    = g.range(0, 3);
    p["seed_j"]  = (long long)(g.next() >> 1);
    p["sim"]     = gen_sim(g);
    return p;
}

// The documented nested iteration, written by the harness with the object's own public operators and (through the
// accessor) its cycles.
void harness_nested_iteration(GMGPolar& s, const SolverOpts& o, Result& r)
{
    std::vector<Level>& lv = ACC::levels(s);
    const int L            = ACC::number_of_levels(s);
    Interpolation& I       = ACC::interpolation(s);
    SimRun sr(canonical_sim(), r);
    lv[L - 1].solution() = lv[L - 1].rhs();
    lv[L - 1].directSolveInPlace(lv[L - 1].solution());
    for (int l = L - 1; l > 0; l--) {
        I.applyFMGInterpolation(lv[l], lv[l - 1], lv[l - 1].solution(), lv[l].solution());
        for (int k = 0; k < o.fmg_iterations; k++) {
            bool ex = (l - 1 == 0) && o.extrapolation != 0;
            ACC::cycle(s, o.fmg_cycle, ex, l - 1, lv[l - 1].solution(), lv[l - 1].rhs(), lv[l - 1].residual());
        }
    }
}

void run_fmgstart(const Value& plan, Result& r)
{
    SolverOpts o = SolverOpts::from_json(plan.at("opts"));
    r.signature  = "fmgstart " + o.str();
    auto start_of = [&](GMGPolar& s, const Value& simcfg) {
        CoutCapture cap;
        SimRun sr(simcfg, r);
        s.solve(); // maxIterations = 0: the start-up only
        return s.solution();
    };
    Obj a = make_setup(o, r);
    if (!a.ok) {
        r.signature += " [setup rejected: " + a.err + "]";
        return;
    }
    const int L = ACC::number_of_levels(*a.s);
    r.probe(fmt("levels_%d", L));
    r.probe(fmt("fmg_iterations_%d", o.fmg_iterations));
    r.probe(o.extrapolation ? "extrapolated" : "plain");
    r.nontrivial = true;
    // (i) fresh object
    Vector<double> u_fresh = start_of(*a.s, canonical_sim());
    if (!all_finite(u_fresh))
        r.fail("C09.start_not_finite", r.signature);
    // (ii) object whose work vectors hold arbitrary old data
    Obj b = make_setup(o, r);
    fill_scratch_with_junk(*b.s, o, plan.at("seed_j").as_u64(), (int)plan.at("junk").as_int(0), false);
    Vector<double> u_junk = start_of(*b.s, canonical_sim());
    int idx = -1;
    if (!bit_equal(u_fresh, u_junk, &idx))
        r.fail("C09.start_depends_on_stale_work_vectors",
               fmt("index %d: fresh %.17g, junk-filled object %.17g; %s", idx, idx >= 0 ? u_fresh[idx] : 0.0,
                   idx >= 0 ? u_junk[idx] : 0.0, r.signature.c_str()));
    // (iii) an object that has already solved the problem
    {
        SolverOpts o2     = o;
        o2.max_iterations = 6;
        Obj c             = make_setup(o2, r);
        {
            CoutCapture cap;
            SimRun sr(canonical_sim(), r);
            c.s->solve();
        }
        c.s->maxIterations(0);
        Vector<double> u_used = start_of(*c.s, canonical_sim());
        r.probe("used_object_compared");
        if (!bit_equal(u_fresh, u_used, &idx))
            r.fail("C09.start_depends_on_previous_solve",
                   fmt("index %d: fresh %.17g, previously used object %.17g; %s", idx, idx >= 0 ? u_fresh[idx] : 0.0,
                       idx >= 0 ? u_used[idx] : 0.0, r.signature.c_str()));
    }
    // the start-up under a random schedule is bit-identical (C12 share)
    {
        Obj d             = make_setup(o, r);
        Value sc          = plan.at("sim");
        sc["shortfall_p"] = 0.0;
        Vector<double> u_sched = start_of(*d.s, sc);
        if (!bit_equal(u_fresh, u_sched, &idx))
            r.fail("C09.start_schedule_dependent", fmt("index %d; %s", idx, r.signature.c_str()));
    }
    // the harness's own nested iteration (coarsest direct solve, then level by level interpolate + cycles)
    {
        Obj e = make_setup(o, r);
        harness_nested_iteration(*e.s, o, r);
        const Vector<double>& want = ACC::levels(*e.s)[0].solution();
        double sc = std::max(max_abs(want), max_abs(u_fresh)), worst = 0;
        int wi = -1;
        for (int i = 0; i < want.size(); i++) {
            double d = std::fabs(want[i] - u_fresh[i]);
            if (std::isnan(d))
                d = INFINITY;
            if (d > worst) {
                worst = d;
                wi    = i;
            }
        }
        r.maxim("nested_iteration_rel_diff", sc > 0 ? worst / sc : 0);
        if (!(worst <= 64 * EPS * sc))
            r.fail(fmt("C09.start_is_not_nested_iteration_from_coarsest:L%d", std::min(L, 4)),
                   fmt("levels=%d fmg_iterations=%d: index %d start %.17g, nested iteration %.17g; %s", L,
                       o.fmg_iterations, wi, wi >= 0 ? u_fresh[wi] : 0.0, wi >= 0 ? want[wi] : 0.0, r.signature.c_str()));
    }
    // with no start-up cycles the start is the interpolated coarse-grid solution, built from independent public objects
    if (o.fmg_iterations == 0) {
        Problem prob = make_problem(o.prob);
        std::vector<Level>& lv = ACC::levels(*a.s);
        // coarsest right-hand side from the reference model, coarse solve with the reference model
        model::RefOperator Ac;
        Ac.build(lv[L - 1].grid(), *prob.geometry, *prob.coeff, o.dirbc);
        std::vector<double> fc, uc;
        Ac.rhs(*prob.source, *prob.bc, fc);
        if (Ac.n <= 2700 && Ac.solve(fc, uc)) {
            Vector<double> cur(Ac.n);
            Ac.to_lib(uc, cur);
            std::vector<int> tpl(L, 1);
            Interpolation I(tpl, o.dirbc);
            SimRun sr(canonical_sim(), r);
            for (int l = L - 1; l > 0; l--) {
                Vector<double> nxt(lv[l - 1].grid().numberOfNodes());
                I.applyFMGInterpolation(lv[l], lv[l - 1], nxt, cur);
                cur = nxt;
            }
            sr.finish();
            // compare in the residual of the finest... the two only differ by the rounding of the coarse solve
            double sc = max_abs(cur), worst = 0;
            for (int i = 0; i < cur.size(); i++)
                worst = std::max(worst, std::fabs(cur[i] - u_fresh[i]));
            r.probe("interpolated_coarse_solution_compared");
            r.maxim("interp_coarse_rel_diff", sc > 0 ? worst / sc : 0);
            // conditioning of the coarse problem enters the forward difference: bound it through the coarse residual
            std::vector<double> uf_c(Ac.n);
            // inject the start down to the coarsest level (coarse values are copied by the FMG interpolation)
            {
                int stride = 1 << (L - 1);
                const PolarGrid& g0 = lv[0].grid();
                for (int i = 0; i < Ac.nr; i++)
                    for (int j = 0; j < Ac.ntheta; j++)
                        uf_c[Ac.id(i, j)] = u_fresh[g0.index(i * stride, j * stride)];
            }
            std::vector<double> Au, absAu;
            Ac.apply(uf_c, Au);
            Ac.apply_abs(uf_c, absAu);
            double res = 0, scl = 0;
            for (int m = 0; m < Ac.n; m++) {
                res = std::max(res, std::fabs(fc[m] - Au[m]));
                scl = std::max(scl, absAu[m] + std::fabs(fc[m]));
            }
            double allowed = 8.0 * Ac.n * EPS * scl;
            r.maxim("coarse_residual_units", res / (allowed + 1e-300));
            if (!(res <= allowed))
                r.fail(fmt("C09.start_is_not_interpolated_coarse_solution:L%d", std::min(L, 4)),
                       fmt("levels=%d: the start restricted to the coarsest grid does not solve the coarse system: "
                           "residual %.3e > %.3e; %s",
                           L, res, allowed, r.signature.c_str()));
        }
    }
    // discretisation-level accuracy: with >= 1 cycle per level the start's error is of the order of the converged one
    // (The yardstick is the converged solution of the plain second-order discretisation: nested iteration with the FMG
    //  interpolation reaches that level; the extrapolated scheme's higher accuracy only comes with the iteration.  The
    //  documented default of one pre- and one post-smoothing step is required.)
    //  As in C02 the comparison is only meaningful where the mesh resolves the solution: smooth problems, and the
    //  across-origin closure only with R0 -> 0.)
    if (o.fmg_iterations >= 1 && o.with_exact && o.extrapolation != 2 && o.pre >= 1 && o.post >= 1 &&
        o.prob.problem != 3 && (o.dirbc || o.R0 <= 1e-5)) {
        SolverOpts o3     = o;
        o3.extrapolation  = 0;
        o3.max_iterations = 150;
        o3.abs_tol        = 1e-10;
        o3.rel_tol        = -1;
        Obj f             = make_setup(o3, r);
        {
            CoutCapture cap;
            SimRun sr(canonical_sim(), r);
            f.s->solve();
        }
        Problem prob = make_problem(o.prob);
        const PolarGrid& g0 = f.s->grid();
        double e_start = 0, e_conv = 0;
        for (int i = 0; i < g0.nr(); i++)
            for (int j = 0; j < g0.ntheta(); j++) {
                double ue = prob.exact->exact_solution(g0.radius(i), g0.theta(j), std::sin(g0.theta(j)), std::cos(g0.theta(j)));
                e_start   = std::max(e_start, std::fabs(u_fresh[g0.index(i, j)] - ue));
                e_conv    = std::max(e_conv, std::fabs(f.s->solution()[g0.index(i, j)] - ue));
            }
        r.maxim("start_error_over_converged_error", e_conv > 0 ? e_start / e_conv : 0);
        r.probe("accuracy_compared");
        // "already has discretisation-level accuracy": within one order of magnitude of the converged discrete error
        if (e_conv > 0 && !(e_start <= 10.0 * e_conv))
            r.fail("C09.start_not_discretisation_accurate",
                   fmt("max error of the FMG start %.3e vs converged discrete solution %.3e (ratio %.1f); %s", e_start,
                       e_conv, e_start / e_conv, r.signature.c_str()));
    }
}

Registrar r1({"cycles", "C10", "fast,trace", gen_cycles, run_cycles});
Registrar r2({"fmgstart", "C09", "fast", gen_fmgstart, run_fmgstart});

} // namespace
