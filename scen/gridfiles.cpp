// C18 -- generated grids are valid, nested and coarsenable; grid files round-trip; faults on the files never produce an
// invalid grid or a memory error.  Runs mainly in the asan flavour (ASan + UBSan + assertions).
#include "harness/solver_cfg.h"
#include <fstream>
#include <sstream>
#include <sys/stat.h>
#include <unistd.h>
#include <dirent.h>

using namespace hs;
typedef GMGPolarVerifAccess ACC;

namespace {

struct GP {
    double R0 = 1e-5, Rmax = 1.3, rr = 0.0;
    int nr_exp = 4, ntheta_exp = -1, aniso = 0, div = 0;
    std::string str() const
    {
        return fmt("R0=%g Rmax=%g nr_exp=%d ntheta_exp=%d aniso=%d divideBy2=%d refinement_radius=%g", R0, Rmax, nr_exp,
                   ntheta_exp, aniso, div, rr);
    }
};
Value gp_json(const GP& p)
{
    Value v         = Value::object();
    v["R0"]         = p.R0;
    v["Rmax"]       = p.Rmax;
    v["rr"]         = p.rr;
    v["nr_exp"]     = p.nr_exp;
    v["ntheta_exp"] = p.ntheta_exp;
    v["aniso"]      = p.aniso;
    v["divideBy2"]  = p.div;
    return v;
}
GP gp_from(const Value& v)
{
    GP p;
    p.R0         = v.at("R0").as_double(1e-5);
    p.Rmax       = v.at("Rmax").as_double(1.3);
    p.rr         = v.at("rr").as_double(0);
    p.nr_exp     = (int)v.at("nr_exp").as_int(4);
    p.ntheta_exp = (int)v.at("ntheta_exp").as_int(-1);
    p.aniso      = (int)v.at("aniso").as_int(0);
    p.div        = (int)v.at("divideBy2").as_int(0);
    return p;
}

GP gen_gp(Rng& g, bool valid_only)
{
    GP p;
    static const double R0s[] = {1e-8, 1e-5, 1e-3, 0.1, 0.5};
    static const double Rs[]  = {1.0, 1.3, 2.0, 1.3, 2.0, 1.0, 1.3, 130.0, 1300.0}; // incl. other length units (cm, mm)
    p.R0                      = R0s[g.below(5)];
    p.Rmax                    = Rs[g.below(9)];
    p.nr_exp                  = valid_only ? g.range(3, 6) : g.range(1, 7);
    p.ntheta_exp              = g.chance(0.35) ? -1 : (valid_only ? g.range(3, 7) : g.range(0, 8));
    p.aniso                   = g.chance(0.5) ? 0 : g.range(1, valid_only ? 3 : 6);
    p.div                     = g.chance(0.6) ? 0 : g.range(1, 3);
    int c                     = (int)g.below(valid_only ? 3 : 10);
    if (c < 3)
        p.rr = p.R0 + g.uniform(0.2, 0.95) * (p.Rmax - p.R0); // inside
    else if (c < 5)
        p.rr = 0.0; // the command-line default of alpha_jump
    else if (c < 6)
        p.rr = p.R0;
    else if (c < 7)
        p.rr = p.Rmax;
    else if (c < 8)
        p.rr = p.Rmax * g.uniform(1.01, 2.0);
    else if (c < 9)
        p.rr = p.R0 + g.uniform(0.0, 0.2) * (p.Rmax - p.R0);
    else
        p.rr = p.R0 * g.uniform(0.0, 0.99);
    if (!valid_only && g.chance(0.04))
        std::swap(p.R0, p.Rmax); // R0 >= Rmax must be rejected
    if (!valid_only && g.chance(0.05)) {
        // an annulus so thin that neighbouring nodes collapse in double precision: rejected, or strictly increasing radii
        p.R0   = 1.0;
        p.Rmax = 1.0 + std::pow(10.0, -(double)g.range(9, 15));
        p.rr   = p.R0;
    }
    return p;
}

std::unique_ptr<PolarGrid> build(const GP& p)
{
    return std::make_unique<PolarGrid>(p.R0, p.Rmax, p.nr_exp, p.ntheta_exp, p.rr, p.aniso, p.div);
}

// validity invariants of any grid object the library hands out
std::string invalid_reason(const PolarGrid& g)
{
    if (g.nr() < 2 || g.ntheta() < 2)
        return "fewer than two nodes in a direction";
    for (int i = 0; i < g.nr(); i++)
        if (!(g.radius(i) > 0) || !std::isfinite(g.radius(i)))
            return fmt("radius %d not positive/finite", i);
    for (int i = 0; i + 1 < g.nr(); i++)
        if (!(g.radius(i + 1) > g.radius(i)))
            return fmt("radii not strictly increasing at %d", i);
    if (g.theta(0) != 0.0 && std::fabs(g.theta(0)) > 1e-12)
        return "first angle not 0";
    for (int j = 0; j + 1 < g.ntheta(); j++)
        if (!(g.theta(j + 1) > g.theta(j)))
            return fmt("angles not strictly increasing at %d", j);
    if (!(g.theta(g.ntheta() - 1) < 2 * M_PI))
        return "angle >= 2pi";
    // antipodal partner for every angle
    for (int j = 0; j < g.ntheta(); j++) {
        double opp = g.theta(j) + M_PI >= 2 * M_PI ? g.theta(j) - M_PI : g.theta(j) + M_PI;
        bool found = false;
        for (int q = 0; q < g.ntheta() && !found; q++)
            found = std::fabs(g.theta(q) - opp) <= 1e-9;
        if (!found && std::fabs(opp - 2 * M_PI) > 1e-9 && std::fabs(opp) > 1e-9)
            return fmt("angle %d has no antipodal partner", j);
    }
    return "";
}

/* scratch directory */
std::string scratch_dir()
{
    std::string d = fmt("/verif/build/scratch/gf-%d", (int)getpid());
    mkdir("/verif/build", 0777);
    mkdir("/verif/build/scratch", 0777);
    mkdir(d.c_str(), 0777);
    return d;
}
std::string slurp(const std::string& path)
{
    std::ifstream in(path, std::ios::binary);
    std::stringstream ss;
    ss << in.rdbuf();
    return ss.str();
}
void spit(const std::string& path, const std::string& data)
{
    std::ofstream out(path, std::ios::binary | std::ios::trunc);
    out << data;
}

Value gen(uint64_t seed, const std::string& tier)
{
    Rng g(sim::mix(seed, 0xC18));
    Value p   = Value::object();
    int mode  = (int)g.below(13); // 10,11: user-supplied (explicit) grids through files into setup(); 12: mutated vectors
    // 0-3 parameter space (incl. invalid), 4 fault-free round trip, 5 write fault, 6 durable edit, 7 read fault,
    // 8 enumerated crash points, 9 load through GMGPolar::setup
    if (mode == 11)
        mode = 10;
    if (mode == 12)
        mode = 11; // user-supplied radii / angles vectors with one defect: rejected by exception, or a valid grid
    p["mode"]   = mode;
    {
        // explicit grid for mode 10: nr = 2^a * m + 1, ntheta = 2^b * q (q odd or even), so that the admissible level
        // count is limited by either direction
        GridSpec e;
        e.kind   = 1;
        e.R0     = 1e-5;
        e.Rmax   = 1.3;
        static const int ms[] = {1, 2, 3, 5};
        e.nr     = (1 << g.range(2, 5)) * ms[g.below(4)] + 1;
        static const int qs[] = {1, 3, 5, 7, 9, 11};
        e.ntheta = (1 << g.range(1, 5)) * qs[g.below(6)];
        if (e.ntheta < 4)
            e.ntheta = 4;
        e.seed   = g.next() >> 1;
        e.ratio  = g.chance(0.5) ? 1.0 : g.loguniform(1.0, 8.0);
        e.midpoint = g.chance(0.5);
        e.nest   = 1;
        e.uniform_theta = g.chance(0.5);
        p["explicit"] = e.to_json();
    }
    p["params"] = gp_json(gen_gp(g, mode >= 4));
    p["prev"]   = gp_json(gen_gp(g, true)); // the previous generation of the files
    static const int precs[] = {18, 18, 18, 17, 16, 15, 15, 12, 20, 22, 25};
    p["precision"]  = precs[g.below(11)];
    p["max_levels"] = g.chance(0.5) ? -1 : g.range(2, 6);
    Value f         = Value::object();
    static const char* wf[] = {"open_fail", "write_fail", "short_write", "crash_after_write", "crash_between_files"};
    static const char* de[] = {"truncate", "tear_last_line", "delete", "empty", "flip_byte", "stale", "swap_files",
                               "append_garbage", "nan_inf_token", "locale_comma", "keep_first_lines", "duplicate_line",
                               "coarse_precision", "delete_line", "insert_line"};
    static const char* rf[] = {"read_fail", "short_read", "open_fail"};
    f["kind"]  = mode == 5 ? wf[g.below(5)] : mode == 6 ? de[g.below(15)] : mode == 7 ? rf[g.below(3)] : "none";
    f["file"]  = g.range(0, 1);
    f["k"]     = g.range(0, 80);
    f["bytes"] = g.range(0, 20);
    f["frac"]  = g.uniform(0, 1);
    f["errno"] = g.chance(0.5) ? 28 : 5;
    p["fault"] = f;
    p["sim"]   = gen_sim(g);
    return p;
}

struct Ctx {
    Result& r;
    std::string dir, fr, ft;
    std::string sig;
};

// load the two files: outcome = exception (fine) or a grid that must be valid and usable
void load_and_judge(Ctx& c, const std::string& what, const PolarGrid* expect, int precision)
{
    std::unique_ptr<PolarGrid> lg;
    bool threw = false;
    std::string ew;
    {
        CoutCapture cap;
        try {
            lg = std::make_unique<PolarGrid>(c.fr, c.ft);
        }
        catch (const std::exception& e) {
            threw = true;
            ew    = e.what();
        }
    }
    if (threw) {
        c.r.probe("load_rejected");
        if (expect)
            // F12 (DESIGN 7): the antipodal-partner check of the loader needs ~13 significant digits
            c.r.fail(precision < 15 ? "C18.round_trip_rejected[precision<15]" : "C18.round_trip_rejected",
                     fmt("fault-free load of a grid written with precision %d threw '%s'; %s", precision, ew.c_str(),
                         c.sig.c_str()));
        return;
    }
    c.r.probe("load_accepted");
    std::string why = invalid_reason(*lg);
    if (!why.empty())
        c.r.fail("C18.loaded_grid_invalid", fmt("after %s the loaded grid is accepted but %s; %s", what.c_str(),
                                                why.c_str(), c.sig.c_str()));
    if (expect) {
        double tol = std::pow(10.0, -precision) * 0.51 + 4 * EPS * expect->radius(expect->nr() - 1);
        if (lg->nr() != expect->nr() || lg->ntheta() != expect->ntheta())
            c.r.fail("C18.round_trip_size_differs", fmt("%dx%d vs written %dx%d; %s", lg->nr(), lg->ntheta(),
                                                        expect->nr(), expect->ntheta(), c.sig.c_str()));
        else {
            for (int i = 0; i < lg->nr(); i++)
                if (std::fabs(lg->radius(i) - expect->radius(i)) > tol) {
                    c.r.fail("C18.round_trip_radius_differs", fmt("radius %d: %.17g vs %.17g; %s", i, lg->radius(i),
                                                                  expect->radius(i), c.sig.c_str()));
                    break;
                }
            for (int j = 0; j < lg->ntheta(); j++)
                if (std::fabs(lg->theta(j) - expect->theta(j)) > tol + 4 * EPS * 2 * M_PI) {
                    c.r.fail("C18.round_trip_angle_differs", fmt("angle %d: %.17g vs %.17g; %s", j, lg->theta(j),
                                                                 expect->theta(j), c.sig.c_str()));
                    break;
                }
        }
    }
}

void run(const Value& plan, Result& r)
{
    const int mode = (int)plan.at("mode").as_int(0);
    GP p           = gp_from(plan.at("params"));
    GP prev        = gp_from(plan.at("prev"));
    const int prec = (int)plan.at("precision").as_int(18);
    const Value& f = plan.at("fault");
    const std::string kind = f.at("kind").as_str();
    r.signature = fmt("gridfiles mode=%d fault=%s %s", mode, kind.c_str(), p.str().c_str());
    r.probe(fmt("mode_%d", mode));
    SimRun sr(plan.at("sim"), r);
    if (mode == 10) {
        /* a user-supplied grid (any radii / angles, ntheta not a power of two) written to files and loaded by setup():
           the grid must admit the number of levels setup reports, and setup must not reject a grid that admits two */
        GridSpec e = GridSpec::from_json(plan.at("explicit"));
        std::unique_ptr<PolarGrid> eg;
        try {
            eg = make_grid(e);
        }
        catch (const std::exception&) {
            r.probe("explicit_grid_rejected");
            return;
        }
        r.nontrivial = true;
        r.signature  = fmt("gridfiles mode=10 explicit %dx%d ratio=%g", eg->nr(), eg->ntheta(), e.ratio);
        // independent model of the admissible level count: halve while the coarser grid is a valid smoothing-level grid
        // (integer sizes, nr >= 5, ntheta even and >= 4) -- the rule documented in chooseNumberOfLevels
        int Lr = 1, Lt = 1;
        for (int nr = eg->nr(); (nr - 1) % 2 == 0 && (nr + 1) / 2 >= 5; nr = (nr + 1) / 2)
            Lr++;
        for (int nt = eg->ntheta(); nt % 2 == 0 && nt / 2 >= 4 && (nt / 2) % 2 == 0; nt /= 2)
            Lt++;
        const int Lmax = std::min(Lr, Lt);
        std::string dir = scratch_dir(), fr = dir + "/radii.txt", ft = dir + "/angles.txt";
        sim::fs_reset(dir + "/");
        {
            CoutCapture cap;
            eg->writeToFile(fr, ft, 18);
        }
        SolverOpts o;
        o.prob.Rmax  = 1.3;
        o.R0         = 1e-5;
        o.threads    = 2;
        o.verbose    = 0;
        o.max_iterations = 2;
        o.max_levels = (int)plan.at("max_levels").as_int(-1);
        Problem keep;
        auto s2 = new_solver(o, keep);
        s2->load_grid_file(true);
        s2->file_grid_radii(fr);
        s2->file_grid_angles(ft);
        bool ok = false;
        std::string ew;
        {
            CoutCapture cap;
            try {
                s2->setup();
                ok = true;
            }
            catch (const std::exception& ex) {
                ew = ex.what();
            }
        }
        r.probe(fmt("model_levels_%d", std::min(Lmax, 5)));
        const int cap_levels = o.max_levels > 0 ? std::min(o.max_levels, Lmax) : Lmax;
        if (!ok) {
            r.probe("setup_rejected_loaded_grid");
            if (cap_levels >= 2)
                r.fail("C18.setup_rejects_grid_that_admits_two_levels",
                       fmt("%dx%d grid admits %d levels (cap %d) but setup() threw '%s'", eg->nr(), eg->ntheta(), Lmax,
                           o.max_levels, ew.c_str()));
        }
        else {
            r.probe("explicit_grid_set_up");
            std::vector<Level>& lv = ACC::levels(*s2);
            const int L            = ACC::number_of_levels(*s2);
            if (L != cap_levels)
                r.fail("C18.level_count_differs_from_model",
                       fmt("%dx%d grid: setup reports %d levels, the grid admits %d (cap %d)", eg->nr(), eg->ntheta(), L,
                           Lmax, o.max_levels));
            for (int l = 0; l < (int)lv.size(); l++)
                if (!invalid_reason(lv[l].grid()).empty()) {
                    r.fail("C18.level_grid_invalid", fmt("level %d: %s", l, invalid_reason(lv[l].grid()).c_str()));
                    break;
                }
            if (lv[0].grid().nr() != eg->nr() || lv[0].grid().ntheta() != eg->ntheta())
                r.fail("C18.solver_grid_differs_from_file", r.signature);
            CoutCapture cap;
            try {
                s2->solve();
                r.probe("explicit_grid_solved");
            }
            catch (const std::exception&) {
                r.fail("C18.solve_throws_on_loaded_grid", r.signature);
            }
        }
        unlink(fr.c_str());
        unlink(ft.c_str());
        rmdir(dir.c_str());
        return;
    }
    if (mode == 11) {
        GridSpec e = GridSpec::from_json(plan.at("explicit"));
        std::unique_ptr<PolarGrid> eg;
        try {
            eg = make_grid(e);
        }
        catch (const std::exception&) {
            r.probe("explicit_grid_not_constructible");
            return;
        }
        std::vector<double> rad, ang;
        for (int i = 0; i < eg->nr(); i++)
            rad.push_back(eg->radius(i));
        for (int j = 0; j < eg->ntheta(); j++)
            ang.push_back(eg->theta(j));
        ang.push_back(2 * M_PI);
        const long k   = f.at("k").as_int(0);
        const double fr = f.at("frac").as_double(0.5);
        static const char* muts[] = {"none", "repeat_radius", "swap_radii", "zero_radius", "negative_radius", "nan_radius",
                                     "repeat_angle", "swap_angles", "no_two_pi", "first_angle_nonzero", "unpaired_angle",
                                     "two_radii", "one_radius", "two_angles", "tiny_gap_radius", "insert_angle",
                                     "delete_angle", "insert_radius", "delete_radius"};
        const char* mut = muts[k % 19];
        size_t ir = 1 + (size_t)(fr * (rad.size() - 1)) % (rad.size() - 1), ia = 1 + (size_t)(fr * (ang.size() - 2)) % (ang.size() - 2);
        std::string m = mut;
        if (m == "repeat_radius")
            rad[ir] = rad[ir - 1];
        else if (m == "swap_radii")
            std::swap(rad[ir], rad[ir - 1]);
        else if (m == "zero_radius")
            rad[0] = 0.0;
        else if (m == "negative_radius")
            rad[0] = -rad[0];
        else if (m == "nan_radius")
            rad[ir] = std::nan("");
        else if (m == "repeat_angle")
            ang[ia] = ang[ia - 1];
        else if (m == "swap_angles")
            std::swap(ang[ia], ang[ia - 1]);
        else if (m == "no_two_pi")
            ang.pop_back();
        else if (m == "first_angle_nonzero")
            ang[0] = 0.5 * ang[1];
        else if (m == "unpaired_angle")
            ang[ia] = 0.5 * (ang[ia] + ang[ia - 1]) + 1e-3 * (ang[ia] - ang[ia - 1]);
        else if (m == "two_radii")
            rad.resize(2);
        else if (m == "one_radius")
            rad.resize(1);
        else if (m == "two_angles")
            ang = {0.0, 2 * M_PI};
        else if (m == "tiny_gap_radius")
            rad[ir] = std::nextafter(rad[ir - 1], 2 * rad[ir]); // one ulp apart: strictly increasing, legal
        else if (m == "insert_angle") // a stray angle anywhere in (0, 2 pi): it has no antipodal partner
            ang.insert(ang.begin() + ia, ang[ia - 1] + 0.37 * (ang[ia] - ang[ia - 1]));
        else if (m == "delete_angle") // its former partner loses its opposite
            ang.erase(ang.begin() + ia);
        else if (m == "insert_radius") // legal: any strictly increasing radii
            rad.insert(rad.begin() + ir, rad[ir - 1] + 0.41 * (rad[ir] - rad[ir - 1]));
        else if (m == "delete_radius" && rad.size() > 3)
            rad.erase(rad.begin() + ir);
        r.signature  = fmt("gridfiles mode=11 vectors %dx%d mutation=%s at %zu/%zu", eg->nr(), eg->ntheta(), mut, ir, ia);
        r.nontrivial = true;
        r.probe(std::string("mutation:") + mut);
        std::unique_ptr<PolarGrid> mg;
        {
            CoutCapture cap;
            try {
                mg = std::make_unique<PolarGrid>(rad, ang);
            }
            catch (const std::exception&) {
                r.probe("vectors_rejected");
                if (m == "none" || m == "tiny_gap_radius" || m == "insert_radius" || m == "delete_radius")
                    r.fail("C18.valid_vectors_rejected", r.signature);
                return;
            }
        }
        r.probe("vectors_accepted");
        std::string why = invalid_reason(*mg);
        if (!why.empty())
            r.fail("C18.invalid_vectors_accepted", why + "; " + r.signature);
        return;
    }
    /* ---- generation: accepted or rejected by exception ---- */
    std::unique_ptr<PolarGrid> g;
    {
        CoutCapture cap;
        try {
            g = build(p);
        }
        catch (const std::exception& e) {
            r.probe("parameters_rejected");
            r.nontrivial = true;
            return;
        }
    }
    r.nontrivial = true;
    r.probe("parameters_accepted");
    if (p.aniso > 0)
        r.probe("anisotropic");
    if (p.rr < p.R0 || p.rr > p.Rmax)
        r.probe("refinement_radius_outside_domain");
    const std::string sig = r.signature;
    std::string why       = invalid_reason(*g);
    if (!why.empty())
        r.fail("C18.generated_grid_invalid", why + "; " + sig);
    if (g->radius(0) != p.R0 || g->radius(g->nr() - 1) != p.Rmax)
        r.fail("C18.boundary_radii_not_exact", fmt("radius(0)=%.17g radius(nr-1)=%.17g; %s", g->radius(0),
                                                   g->radius(g->nr() - 1), sig.c_str()));
    // uniform, antipodally paired angles
    for (int j = 0; j < g->ntheta(); j++)
        if (std::fabs(g->theta(j) - j * (2 * M_PI / g->ntheta())) > 8 * EPS * 2 * M_PI) {
            r.fail("C18.angles_not_uniform", fmt("angle %d = %.17g; %s", j, g->theta(j), sig.c_str()));
            break;
        }
    // fine nodes are midpoints of the next coarser nodes
    for (int i = 1; i + 1 < g->nr(); i += 2)
        if (std::fabs(g->radius(i) - 0.5 * (g->radius(i - 1) + g->radius(i + 1))) > 8 * EPS * p.Rmax) {
            r.fail("C18.fine_node_not_midpoint", fmt("radius %d; %s", i, sig.c_str()));
            break;
        }
    // the grid of one refinement less is the every-second-node subgrid
    if (p.div >= 1) {
        GP q  = p;
        q.div = p.div - 1;
        std::unique_ptr<PolarGrid> c;
        try {
            c = build(q);
        }
        catch (const std::exception&) {
        }
        if (!c)
            r.probe("coarser_refinement_not_constructible"); // e.g. a single angular cell: nothing to compare with
        else if (c->nr() != (g->nr() + 1) / 2 || c->ntheta() != g->ntheta() / 2)
            r.fail("C18.not_nested_in_finer_grid", fmt("sizes %dx%d vs %dx%d; %s", c->nr(), c->ntheta(), g->nr(),
                                                       g->ntheta(), sig.c_str()));
        else {
            for (int i = 0; i < c->nr(); i++)
                if (std::fabs(c->radius(i) - g->radius(2 * i)) > 8 * EPS * p.Rmax) {
                    r.fail("C18.not_nested_in_finer_grid", fmt("radius %d; %s", i, sig.c_str()));
                    break;
                }
        }
        r.probe("nesting_checked");
    }
    /* ---- the number of levels setup() reports is admitted by the grid ---- */
    // (the sparse LU of the coarsest level is meant for small coarse grids: with a level cap of 2 on a long thin grid its
    //  fill-in makes setup() take minutes, which is a cost, not a property; such plans only get the grid-level checks)
    const long coarsest_estimate = (long)g->numberOfNodes() >> (2 * std::max(1, (int)plan.at("max_levels").as_int(-1) < 0
                                                                              ? 3 : (int)plan.at("max_levels").as_int(-1) - 1));
    if (mode <= 4 && g->numberOfNodes() <= 20000 && coarsest_estimate <= 1200) {
        SolverOpts o;
        o.prob.geometry = 0;
        o.prob.problem  = 0;
        o.prob.coeff    = 0;
        o.prob.Rmax     = p.Rmax;
        o.prob.alpha_jump = p.rr; // the refinement radius of GMGPolar is the coefficient's alpha_jump
        o.R0 = p.R0;
        o.nr_exp = p.nr_exp;
        o.ntheta_exp = p.ntheta_exp;
        o.aniso = p.aniso;
        o.divideBy2 = p.div;
        o.max_levels = (int)plan.at("max_levels").as_int(-1);
        o.threads = 2;
        o.verbose = 0;
        o.max_iterations = 1;
        Problem keep;
        auto s = new_solver(o, keep);
        bool ok = false;
        {
            CoutCapture cap;
            try {
                s->setup();
                ok = true;
            }
            catch (const std::exception&) {
                r.probe("setup_rejected");
            }
        }
        if (ok) {
            r.probe("levels_checked");
            std::vector<Level>& lv = ACC::levels(*s);
            const int L            = ACC::number_of_levels(*s);
            if (L < 2 || (int)lv.size() != L)
                r.fail("C18.level_count_inconsistent", fmt("reported %d levels, built %zu; %s", L, lv.size(), sig.c_str()));
            if (o.max_levels > 0 && L > o.max_levels)
                r.fail("C18.level_cap_exceeded", fmt("%d > cap %d; %s", L, o.max_levels, sig.c_str()));
            for (int l = 1; l < (int)lv.size(); l++) {
                const PolarGrid &fg = lv[l - 1].grid(), &cg = lv[l].grid();
                bool nested = cg.nr() == (fg.nr() + 1) / 2 && cg.ntheta() == fg.ntheta() / 2 && (fg.nr() - 1) % 2 == 0 &&
                              fg.ntheta() % 2 == 0;
                for (int i = 0; nested && i < cg.nr(); i++)
                    nested = cg.radius(i) == fg.radius(2 * i);
                for (int j = 0; nested && j < cg.ntheta(); j++)
                    nested = cg.theta(j) == fg.theta(2 * j);
                if (!nested || cg.radius(0) != p.R0 || cg.radius(cg.nr() - 1) != p.Rmax) {
                    r.fail("C18.level_not_every_second_node", fmt("level %d; %s", l, sig.c_str()));
                    break;
                }
            }
            if (!invalid_reason(lv.back().grid()).empty())
                r.fail("C18.coarsest_level_invalid", invalid_reason(lv.back().grid()) + "; " + sig);
        }
    }
    if (mode < 4)
        return;
    /* ---- files ---- */
    Ctx c{r, scratch_dir(), "", "", sig};
    c.fr = c.dir + "/radii.txt";
    c.ft = c.dir + "/angles.txt";
    sim::fs_reset(c.dir + "/");
    sim::FsFaults& fs = sim::fs();
    // previous generation of the two files (what a crash may leave behind)
    std::string prev_r, prev_t;
    {
        std::unique_ptr<PolarGrid> pg;
        try {
            pg = build(prev);
        }
        catch (...) {
        }
        if (pg) {
            pg->writeToFile(c.fr, c.ft, 18);
            prev_r = slurp(c.fr);
            prev_t = slurp(c.ft);
        }
    }
    auto write_now = [&]() {
        CoutCapture cap;
        g->writeToFile(c.fr, c.ft, prec);
    };
    const int nwrites_r = g->nr(), nwrites_t = g->ntheta() + 1;
    if (mode == 4 || mode == 9) {
        write_now();
        r.probe("round_trip");
        load_and_judge(c, "a fault-free write", g.get(), prec);
        if (mode == 9) {
            // the same files through GMGPolar::setup(load_grid_file)
            SolverOpts o;
            o.prob.Rmax = p.Rmax;
            o.R0        = p.R0;
            o.threads   = 2;
            o.verbose   = 0;
            o.max_iterations = 2;
            Problem keep;
            auto s = new_solver(o, keep);
            s->load_grid_file(true);
            s->file_grid_radii(c.fr);
            s->file_grid_angles(c.ft);
            CoutCapture cap;
            try {
                s->setup();
                s->solve();
                r.probe("solver_loaded_grid");
                if (s->grid().nr() != g->nr() || s->grid().ntheta() != g->ntheta())
                    r.fail("C18.solver_grid_differs_from_file", sig);
            }
            catch (const std::exception&) {
                r.probe("solver_rejected_loaded_grid");
            }
        }
    }
    else if (mode == 5) {
        fs.active = true;
        int file  = (int)f.at("file").as_int(0);
        long k    = f.at("k").as_int(0);
        long kk   = (file == 0 ? k % nwrites_r : nwrites_r + k % nwrites_t);
        if (kind == "open_fail") {
            fs.open_fail_index = file;
            fs.open_errno      = 13;
        }
        else if (kind == "write_fail") {
            fs.write_fail_at = kk;
            fs.write_errno   = (int)f.at("errno").as_int(28);
        }
        else if (kind == "short_write") {
            fs.short_write_at    = kk;
            fs.short_write_bytes = 1 + f.at("bytes").as_int(0);
        }
        else if (kind == "crash_after_write") {
            fs.crash_after_write = kk;
            fs.torn_bytes        = f.at("bytes").as_int(0) % 23 == 22 ? -1 : f.at("bytes").as_int(0);
        }
        else if (kind == "crash_between_files") {
            fs.crash_after_write = nwrites_r - 1;
            fs.torn_bytes        = -1;
        }
        write_now();
        r.probe("fault:" + kind, fs.fired_open_fail + fs.fired_write_fail + fs.fired_short_write + fs.fired_crash);
        fs.active = false;
        // the in-memory grid is gone (crash): only what is durable is loaded
        load_and_judge(c, kind, nullptr, prec);
    }
    else if (mode == 6) {
        write_now();
        int file            = (int)f.at("file").as_int(0);
        std::string& target = file == 0 ? c.fr : c.ft;
        std::string data    = slurp(target);
        double frac         = f.at("frac").as_double(0.5);
        if (kind == "truncate")
            spit(target, data.substr(0, (size_t)(frac * data.size())));
        else if (kind == "tear_last_line") {
            size_t cut = data.size() >= 2 ? data.rfind('\n', data.size() - 2) : std::string::npos;
            size_t keep = (cut == std::string::npos ? 0 : cut + 1) + (size_t)f.at("bytes").as_int(0) % 12;
            spit(target, data.substr(0, std::min(keep, data.size())));
        }
        else if (kind == "keep_first_lines") {
            // only the first 0..4 values survive (the smallest lists the loader may accept)
            size_t pos = 0;
            for (long q = 0; q < f.at("k").as_int(0) % 5 && pos != std::string::npos; q++)
                pos = data.find('\n', pos) == std::string::npos ? std::string::npos : data.find('\n', pos) + 1;
            spit(target, pos == std::string::npos ? data : data.substr(0, pos));
        }
        else if (kind == "duplicate_line") {
            // one line overwritten by its neighbour (line count unchanged): a repeated radius / angle
            std::vector<std::string> lines;
            std::stringstream ss(data);
            for (std::string l; std::getline(ss, l);)
                lines.push_back(l);
            if (lines.size() >= 2) {
                size_t at = 1 + (size_t)(frac * (lines.size() - 1)) % (lines.size() - 1);
                lines[at] = lines[at - 1];
                std::string out;
                for (auto& l : lines)
                    out += l + "\n";
                spit(target, out);
            }
        }
        else if (kind == "delete_line" || kind == "insert_line") {
            // one value lost / one stray value (strictly between its neighbours) in the middle of the file
            std::vector<std::string> lines;
            std::stringstream ss(data);
            for (std::string l; std::getline(ss, l);)
                lines.push_back(l);
            if (lines.size() >= 3) {
                size_t at = 1 + (size_t)(frac * (lines.size() - 2)) % (lines.size() - 2);
                if (kind == "delete_line")
                    lines.erase(lines.begin() + at);
                else {
                    double a = strtod(lines[at - 1].c_str(), nullptr), b2 = strtod(lines[at].c_str(), nullptr);
                    lines.insert(lines.begin() + at, fmt("%.18g", a + 0.37 * (b2 - a)));
                }
                std::string out;
                for (auto& l : lines)
                    out += l + "\n";
                spit(target, out);
            }
        }
        else if (kind == "coarse_precision") {
            // the file rewritten by a tool that keeps 1..4 significant digits: neighbouring values may coincide
            std::stringstream ss(data), out;
            int digits = 1 + (int)(f.at("bytes").as_int(0) % 4);
            for (std::string l; std::getline(ss, l);) {
                char* end = nullptr;
                double v  = strtod(l.c_str(), &end);
                if (end != l.c_str())
                    out << fmt("%.*g", digits, v) << "\n";
                else
                    out << l << "\n";
            }
            spit(target, out.str());
        }
        else if (kind == "delete")
            unlink(target.c_str());
        else if (kind == "empty")
            spit(target, "");
        else if (kind == "flip_byte") {
            if (!data.empty()) {
                size_t pos = (size_t)(frac * data.size()) % data.size();
                data[pos]  = (char)(data[pos] ^ (1 << (f.at("bytes").as_int(0) % 7)));
                spit(target, data);
            }
        }
        else if (kind == "stale")
            spit(target, file == 0 ? prev_r : prev_t);
        else if (kind == "swap_files") {
            std::string a = slurp(c.fr), b2 = slurp(c.ft);
            spit(c.fr, b2);
            spit(c.ft, a);
        }
        else if (kind == "append_garbage")
            spit(target, data + "\x01\xff garbage 1e999 -- \n7\n");
        else if (kind == "nan_inf_token") {
            size_t pos = data.find('\n', (size_t)(frac * data.size()));
            if (pos != std::string::npos)
                data.insert(pos + 1, f.at("bytes").as_int(0) % 2 ? "nan\n" : "inf\n");
            spit(target, data);
        }
        else if (kind == "locale_comma") {
            for (char& ch : data)
                if (ch == '.')
                    ch = ',';
            spit(target, data);
        }
        r.probe("fault:" + kind);
        load_and_judge(c, kind, nullptr, prec);
    }
    else if (mode == 7) {
        write_now();

        sim::fs_reset(c.dir + "/");
        sim::FsFaults& f2 = sim::fs();
        f2.active         = true;
        if (kind == "read_fail")
            f2.read_fail_at = f.at("k").as_int(0) % 3;
        else if (kind == "short_read")
            f2.short_read_bytes = 1 + f.at("bytes").as_int(0);
        else {
            f2.open_fail_index = (int)f.at("file").as_int(0);
            f2.open_errno      = 24;
        }
        load_and_judge(c, kind, kind == "short_read" ? g.get() : nullptr, prec);
        r.probe("fault:" + kind, f2.fired_read_fail + f2.fired_short_read + f2.fired_open_fail);
        f2.active = false;
    }
    else if (mode == 8 && nwrites_r + nwrites_t <= 140) {
        // enumerate every crash point of the two-file write (over the previous generation), clean and torn
        for (long k = 0; k < nwrites_r + nwrites_t; k++)
            for (int torn = 0; torn < 2; torn++) {
                spit(c.fr, prev_r);
                spit(c.ft, prev_t);
                sim::fs_reset(c.dir + "/");
                sim::FsFaults& f2    = sim::fs();
                f2.active            = true;
                f2.crash_after_write = k;
                f2.torn_bytes        = torn ? (long)((k * 7 + 3) % 19) : -1;
                write_now();
                f2.active = false;
                r.probe("fault:crash_after_write_enumerated", f2.fired_crash);
                load_and_judge(c, fmt("crash after write #%ld%s", k, torn ? " (torn)" : ""), nullptr, prec);
            }
        r.probe("crash_points_enumerated", 2 * (nwrites_r + nwrites_t));
    }
    sim::fs().active = false;
    unlink(c.fr.c_str());
    unlink(c.ft.c_str());
    rmdir(c.dir.c_str());
}

Registrar reg({"gridfiles", "C18", "asan,fast", gen, run});

} // namespace
