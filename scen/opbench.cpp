#include "opbench.h"
#include <algorithm>

namespace hs {

const char* op_name(int k)
{
    static const char* n[] = {"residual_give", "residual_take", "directsolver_give", "directsolver_take",
                              "smoother_give", "smoother_take", "exsmoother_give", "exsmoother_take",
                              "prolongation", "prolongation0", "ex_prolongation", "ex_prolongation0",
                              "restriction", "restriction0", "ex_restriction", "ex_restriction0",
                              "injection", "fmg_interpolation", "levelcache_fine", "levelcache_coarse",
                              "vector_kernels"};
    return (k >= 0 && k < OP_COUNT) ? n[k] : "?";
}

Value BenchSpec::to_json() const
{
    Value v          = Value::object();
    v["prob"]        = prob.to_json();
    v["grid"]        = grid.to_json();
    v["dirbc"]       = dirbc;
    v["cache_coeff"] = cache_coeff;
    v["cache_geo"]   = cache_geo;
    v["T"]           = T;
    v["nlevels"]     = nlevels;
    return v;
}
BenchSpec BenchSpec::from_json(const Value& v)
{
    BenchSpec s;
    s.prob        = ProblemSpec::from_json(v.at("prob"));
    s.grid        = GridSpec::from_json(v.at("grid"));
    s.dirbc       = v.at("dirbc").as_bool(false);
    s.cache_coeff = v.at("cache_coeff").as_bool(true);
    s.cache_geo   = v.at("cache_geo").as_bool(true);
    s.T           = (int)v.at("T").as_int(1);
    s.nlevels     = (int)v.at("nlevels").as_int(1);
    return s;
}
std::string BenchSpec::str() const
{
    return fmt("%s %s dirbc=%d cache=%d%d T=%d L=%d", prob.str().c_str(), grid.str().c_str(), (int)dirbc,
               (int)cache_coeff, (int)cache_geo, T, nlevels);
}

Value OpInput::to_json() const
{
    Value v      = Value::object();
    v["op"]      = op;
    v["op_name"] = op_name(op);
    v["level"]   = level;
    v["seed_x"]  = (long long)seed_x;
    v["seed_f"]  = (long long)seed_f;
    v["kind_x"]  = kind_x;
    v["kind_f"]  = kind_f;
    v["scale_x"] = scale_x;
    v["scale_f"] = scale_f;
    v["nsweeps"] = nsweeps;
    return v;
}
OpInput OpInput::from_json(const Value& v)
{
    OpInput o;
    o.op      = (int)v.at("op").as_int(0);
    o.level   = (int)v.at("level").as_int(0);
    o.seed_x  = v.at("seed_x").as_u64(1);
    o.seed_f  = v.at("seed_f").as_u64(2);
    o.kind_x  = (int)v.at("kind_x").as_int(0);
    o.kind_f  = (int)v.at("kind_f").as_int(0);
    o.scale_x = v.at("scale_x").as_double(1);
    o.scale_f = v.at("scale_f").as_double(1);
    o.nsweeps = (int)v.at("nsweeps").as_int(1);
    return o;
}

void Bench::build(const BenchSpec& s)
{
    spec = s;
    prob = make_problem(s.prob);
    levels.clear();
    levels.reserve(s.nlevels);
    levels.push_back(make_level(0, make_grid(s.grid), prob, s.cache_coeff, s.cache_geo,
                                ExtrapolationType::IMPLICIT_EXTRAPOLATION, true));
    for (int l = 1; l < s.nlevels; l++) {
        const PolarGrid& fg = levels[l - 1].grid();
        if ((fg.nr() - 1) % 2 != 0 || fg.ntheta() % 2 != 0 || (fg.ntheta() / 2) % 2 != 0)
            throw std::runtime_error("grid cannot be coarsened further");
        levels.push_back(make_coarse_level(l, levels[l - 1], ExtrapolationType::IMPLICIT_EXTRAPOLATION, true));
    }
    threads_per_level.assign(s.nlevels, s.T);
    interp = std::make_unique<Interpolation>(threads_per_level, s.dirbc);
}

bool op_admissible(const Bench& b, int op, int level, std::string* why)
{
    auto no = [&](const char* w) {
        if (why)
            *why = w;
        return false;
    };
    if (level < 0 || level >= (int)b.levels.size())
        return no("level out of range");
    const PolarGrid& g = b.grid(level);
    if (op_is_take(op) && !(b.spec.cache_coeff && b.spec.cache_geo))
        return no("take needs both caches");
    switch (op) {
    case OP_RES_GIVE:
    case OP_RES_TAKE:
        if (g.nr() < 3 || g.ntheta() < 4)
            return no("grid too small");
        break;
    case OP_DS_GIVE:
    case OP_DS_TAKE:
        if (g.nr() < 5 || g.ntheta() < 4)
            return no("direct solver needs nr>=5, ntheta>=4");
        // (the "radial indexing only" numbering of an explicit splitting radius below R0 is documented and legal here)
        if (g.lengthSmootherRadial() < 3)
            return no("direct solver stencil tables need >=3 radial nodes");
        break;
    case OP_SM_GIVE:
    case OP_SM_TAKE:
        if (g.ntheta() % 4 != 0 || g.ntheta() < 4 || g.numberSmootherCircles() < 2 || g.lengthSmootherRadial() < 3)
            return no("smoother needs ntheta%4==0, >=2 circles, >=3 radial nodes");
        break;
    case OP_EXSM_GIVE:
    case OP_EXSM_TAKE:
        if (g.ntheta() % 4 != 0 || g.ntheta() < 8 || g.numberSmootherCircles() < 3 || g.lengthSmootherRadial() < 3 ||
            (g.nr() - 1) % 2 != 0)
            return no("extrapolated smoother needs ntheta%4==0, >=3 circles, >=3 radial nodes, odd nr");
        break;
    case OP_KERNELS:
    case OP_CACHE_FINE:
        break;
    default: // transfers and coarse cache need a coarser level
        if (level + 1 >= (int)b.levels.size())
            return no("needs a coarser level");
        if (op == OP_FMG && (b.grid(level + 1).nr() < 4 || b.grid(level + 1).ntheta() < 4))
            return no("fmg interpolation needs >=4 coarse nodes per direction");
    }
    return true;
}

static void cache_to_vectors(const LevelCache& c, std::vector<Vector<double>>& out)
{
    auto push_std = [&](const std::vector<double>& v) {
        Vector<double> r((int)std::max<size_t>(v.size(), 1));
        assign(r, 0.0);
        for (size_t i = 0; i < v.size(); i++)
            r[(int)i] = v[i];
        out.push_back(std::move(r));
    };
    auto push_vec = [&](const Vector<double>& v) {
        Vector<double> r(std::max(v.size(), 1));
        assign(r, 0.0);
        for (int i = 0; i < v.size(); i++)
            r[i] = v[i];
        out.push_back(std::move(r));
    };
    push_std(c.sin_theta());
    push_std(c.cos_theta());
    push_std(c.coeff_alpha());
    push_std(c.coeff_beta());
    push_vec(c.arr());
    push_vec(c.att());
    push_vec(c.art());
    push_vec(c.detDF());
}

void exec_op(Bench& b, const OpInput& in, std::vector<Vector<double>>& out, Vector<double>* x_in, Vector<double>* f_in)
{
    const int l        = in.level;
    Level& lev         = *b.levels[l].level;
    const PolarGrid& g = lev.grid();
    const int n        = g.numberOfNodes();
    const int T        = b.spec.T;
    const bool dirbc   = b.spec.dirbc;
    const DomainGeometry& geo               = *b.prob.geometry;
    const DensityProfileCoefficients& coeff = *b.prob.coeff;
    Vector<double> x = rand_vector(n, in.seed_x, in.kind_x, in.scale_x, &g);
    Vector<double> f = rand_vector(n, in.seed_f, in.kind_f, in.scale_f, &g);
    switch (in.op) {
    case OP_RES_GIVE:
    case OP_RES_TAKE: {
        std::unique_ptr<Residual> op;
        if (in.op == OP_RES_GIVE)
            op = std::make_unique<ResidualGive>(g, lev.levelCache(), geo, coeff, dirbc, T);
        else
            op = std::make_unique<ResidualTake>(g, lev.levelCache(), geo, coeff, dirbc, T);
        Vector<double> res(n);
        fill_junk(res, in.seed_x ^ 0x55, 1); // the output buffer holds NaN junk: every entry must be written
        op->computeResidual(res, f, x);
        out.push_back(std::move(res));
        break;
    }
    case OP_DS_GIVE:
    case OP_DS_TAKE: {
        std::unique_ptr<DirectSolver> op;
        if (in.op == OP_DS_GIVE)
            op = std::make_unique<DirectSolverGiveCustomLU>(g, lev.levelCache(), geo, coeff, dirbc, T);
        else
            op = std::make_unique<DirectSolverTakeCustomLU>(g, lev.levelCache(), geo, coeff, dirbc, T);
        for (int s = 0; s < std::max(1, in.nsweeps); s++) {
            Vector<double> sol = (s == 0) ? f : rand_vector(n, in.seed_f + 77 * s, in.kind_f, in.scale_f, &g);
            op->solveInPlace(sol);
            out.push_back(std::move(sol));
        }
        break;
    }
    case OP_SM_GIVE:
    case OP_SM_TAKE: {
        std::unique_ptr<Smoother> op;
        if (in.op == OP_SM_GIVE)
            op = std::make_unique<SmootherGive>(g, lev.levelCache(), geo, coeff, dirbc, T);
        else
            op = std::make_unique<SmootherTake>(g, lev.levelCache(), geo, coeff, dirbc, T);
        Vector<double> temp(n);
        fill_junk(temp, in.seed_x ^ 0x77, 1);
        Vector<double> cur = x;
        for (int s = 0; s < std::max(1, in.nsweeps); s++) {
            op->smoothing(cur, f, temp);
            out.push_back(cur);
        }
        break;
    }
    case OP_EXSM_GIVE:
    case OP_EXSM_TAKE: {
        std::unique_ptr<ExtrapolatedSmoother> op;
        if (in.op == OP_EXSM_GIVE)
            op = std::make_unique<ExtrapolatedSmootherGive>(g, lev.levelCache(), geo, coeff, dirbc, T);
        else
            op = std::make_unique<ExtrapolatedSmootherTake>(g, lev.levelCache(), geo, coeff, dirbc, T);
        Vector<double> temp(n);
        fill_junk(temp, in.seed_x ^ 0x77, 1);
        Vector<double> cur = x;
        for (int s = 0; s < std::max(1, in.nsweeps); s++) {
            op->extrapolatedSmoothing(cur, f, temp);
            out.push_back(cur);
        }
        break;
    }
    case OP_PROL:
    case OP_PROL0:
    case OP_EXPROL:
    case OP_EXPROL0:
    case OP_FMG: {
        Level& coarse = *b.levels[l + 1].level;
        const int nc  = coarse.grid().numberOfNodes();
        x             = rand_vector(nc, in.seed_x, in.kind_x, in.scale_x, &coarse.grid());
        Vector<double> res(n);
        fill_junk(res, in.seed_x ^ 0x55, 1);
        switch (in.op) {
        case OP_PROL: b.interp->applyProlongation(coarse, lev, res, x); break;
        case OP_PROL0: b.interp->applyProlongation0(coarse, lev, res, x); break;
        case OP_EXPROL: b.interp->applyExtrapolatedProlongation(coarse, lev, res, x); break;
        case OP_EXPROL0: b.interp->applyExtrapolatedProlongation0(coarse, lev, res, x); break;
        default: b.interp->applyFMGInterpolation(coarse, lev, res, x);
        }
        out.push_back(std::move(res));
        break;
    }
    case OP_RESTR:
    case OP_RESTR0:
    case OP_EXRESTR:
    case OP_EXRESTR0:
    case OP_INJ: {
        Level& coarse = *b.levels[l + 1].level;
        const int nc  = coarse.grid().numberOfNodes();
        Vector<double> res(nc);
        fill_junk(res, in.seed_x ^ 0x55, 1);
        switch (in.op) {
        case OP_RESTR: b.interp->applyRestriction(lev, coarse, res, x); break;
        case OP_RESTR0: b.interp->applyRestriction0(lev, coarse, res, x); break;
        case OP_EXRESTR: b.interp->applyExtrapolatedRestriction(lev, coarse, res, x); break;
        case OP_EXRESTR0: b.interp->applyExtrapolatedRestriction0(lev, coarse, res, x); break;
        default: b.interp->applyInjection(lev, coarse, res, x);
        }
        out.push_back(std::move(res));
        break;
    }
    case OP_CACHE_FINE: {
        omp_set_num_threads(T);
        LevelCache c(g, coeff, geo, b.spec.cache_coeff, b.spec.cache_geo);
        cache_to_vectors(c, out);
        break;
    }
    case OP_CACHE_COARSE: {
        omp_set_num_threads(T);
        LevelCache c(lev, b.levels[l + 1].grid());
        cache_to_vectors(c, out);
        break;
    }
    case OP_KERNELS: {
        omp_set_num_threads(T);
        Vector<double> res(8);
        res[0] = dot_product(x, f);
        res[1] = l1_norm(x);
        res[2] = l2_norm_squared(x);
        res[3] = infinity_norm(x);
        Vector<double> a = x; // parallel copy constructor above the threshold
        add(a, f);
        out.push_back(a);
        Vector<double> c2(n);
        c2 = x; // copy assignment
        subtract(c2, f);
        out.push_back(c2);
        Vector<double> d = x;
        linear_combination(d, in.scale_x * 0.75, f, -1.0 / 3.0);
        out.push_back(d);
        Vector<double> e = f;
        multiply(e, 4.0 / 3.0);
        out.push_back(e);
        Vector<double> z(n);
        assign(z, in.scale_f);
        out.push_back(z);
        out.push_back(std::move(res));
        break;
    }
    default: throw std::runtime_error("unknown op");
    }
    if (x_in)
        *x_in = x;
    if (f_in)
        *f_in = f;
}

bool midpoint_pair(const PolarGrid& fine, const PolarGrid& coarse, double tol)
{
    for (int i = 1; i < fine.nr(); i += 2) {
        double mid = 0.5 * (fine.radius(i - 1) + fine.radius(i + 1));
        if (std::fabs(fine.radius(i) - mid) > tol * std::max(1.0, std::fabs(mid)))
            return false;
    }
    for (int j = 1; j < fine.ntheta(); j += 2) {
        double mid = 0.5 * (fine.theta(j - 1) + fine.theta(j + 1));
        if (std::fabs(fine.theta(j) - mid) > tol * std::max(1.0, std::fabs(mid)))
            return false;
    }
    (void)coarse;
    return true;
}

std::string context_tag(const PolarGrid& g, bool dirbc, int op)
{
    // F10 (DESIGN 7): explicit splitting radius below R0 => the inner circle belongs to the radial lines and the
    // across-origin coupling connects two radial lines of the same colour in the "give" scatter.
    if (g.numberSmootherCircles() == 0 && !dirbc && (op == OP_RES_GIVE || op == OP_DS_GIVE))
        return "[all_radial_split,across_origin]";
    return "";
}

Value gen_bench(Rng& g, int min_levels, int max_levels, long max_nodes, bool need_theta_div4, int tmax)
{
    BenchSpec s;
    s.nlevels = g.range(min_levels, max_levels);
    s.prob    = gen_problem(g, false, true);
    if (g.chance(0.2)) {
        // other physical units (the Zoni profiles in SI units are O(1e-11)): all operator-level claims are relative
        static const int exps[] = {-20, -10, 10, 20, 40};
        s.prob.scale_exp        = exps[g.below(5)];
    }
    s.grid    = gen_grid(g, s.nlevels, (int)max_nodes, need_theta_div4, true);
    s.grid.Rmax = s.prob.Rmax;
    s.dirbc       = g.chance(0.5);
    s.cache_coeff = g.chance(0.7);
    s.cache_geo   = g.chance(0.7);
    // thread count: small, or beyond the trip count of any loop
    int r = (int)g.below(10);
    if (r < 1)
        s.T = 1;
    else if (r < 6)
        s.T = g.range(2, std::min(tmax, 8));
    else if (r < 8)
        s.T = g.range(2, std::min(tmax, 32));
    else
        s.T = std::min(tmax, std::max(2, std::max(s.grid.nr, s.grid.ntheta) + g.range(0, 3)));
    return s.to_json();
}

} // namespace hs
