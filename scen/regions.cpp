// C11 -- no data race in any parallel region (HB monitor, trace flavour) and
// C12 -- reproducibility across schedules / thread counts (operators, kernels).   DESIGN.md section 6.
#include "opbench.h"

using namespace hs;

namespace {

/* pick an (op, level) that is admissible for the bench */
bool pick_op(Rng& g, Bench& b, OpInput& in, int only_op = -1)
{
    for (int attempt = 0; attempt < 60; attempt++) {
        int op    = only_op >= 0 ? only_op : (int)g.below(OP_COUNT);
        int level = (int)g.below((uint64_t)b.levels.size());
        if (op_admissible(b, op, level)) {
            in.op    = op;
            in.level = level;
            return true;
        }
    }
    return false;
}

Value gen_common(uint64_t seed, const std::string& tier, bool trace_sized, int only_op = -1)
{
    Rng g(sim::mix(seed, 0xC11));
    for (int attempt = 0; attempt < 50; attempt++) {
        long max_nodes = trace_sized ? 2500 : 6000;
        // the transfer / matrix-build regions are only parallel above 10'000 nodes
        bool big = g.chance(trace_sized ? 0.12 : 0.25);
        if (big)
            max_nodes = tier == "thorough" ? 14000 : 11500;
        Value bs = gen_bench(g, 1, 3, max_nodes, true, 256);
        BenchSpec spec = BenchSpec::from_json(bs);
        if (big) {
            // force a size just above the threshold: explicit grid ~ 10'001..11'500 nodes
            spec.grid.kind = 1;
            int pw         = 1 << (spec.nlevels - 1);
            int nt         = 4 * pw * g.range(2, 8);
            int nr         = ((10001 + nt - 1) / nt);
            nr             = ((nr - 1 + pw - 1) / pw) * pw + 1;
            while ((long)nr * nt <= 10000)
                nr += pw;
            spec.grid.nr     = nr;
            spec.grid.ntheta = nt;
            spec.T           = std::min(spec.T, 24);
        }
        Bench b;
        try {
            b.build(spec);
        }
        catch (const std::exception&) {
            continue;
        }
        OpInput in;
        if (!pick_op(g, b, in, only_op))
            continue;
        // the sparse LU of the coarse solver is only ever used on coarsest levels; keep it to sizes it is meant for
        if ((in.op == OP_DS_GIVE || in.op == OP_DS_TAKE) && b.nodes(in.level) > (trace_sized ? 1500 : 3000))
            continue;
        in.seed_x  = g.next() >> 1;
        in.seed_f  = g.next() >> 1;
        in.kind_x  = g.range(0, 4);
        in.kind_f  = g.range(0, 4);
        in.nsweeps = g.range(1, 2);
        if (in.op == OP_DS_GIVE || in.op == OP_DS_TAKE)
            in.nsweeps = 1;
        Value p    = Value::object();
        p["bench"] = spec.to_json();
        p["input"] = in.to_json();
        p["sim"]   = gen_sim(g);
        return p;
    }
    throw std::runtime_error("could not generate an admissible plan");
}

// Bit-comparable outputs.  For the vector kernels the last output holds the reduction scalars (dot product, norms):
// OpenMP leaves the combination order of a reduction to the runtime, and the property only demands their value "to
// rounding", so they are checked against the exact value (scenario `kernels`) and not compared bit by bit.
size_t comparable(const OpInput& in, const std::vector<Vector<double>>& out)
{
    return in.op == OP_KERNELS && !out.empty() ? out.size() - 1 : out.size();
}
uint64_t hash_outputs(const OpInput& in, const std::vector<Vector<double>>& out)
{
    uint64_t h = sim::FNV_INIT;
    for (size_t k = 0; k < comparable(in, out); k++)
        h = sim::fnv1a_u64(h, hash_vec(out[k]));
    return h;
}

std::string shape_class(const PolarGrid& g)
{
    return fmt("circ%%2=%d,%%3=%d,%%4=%d;nt%%3=%d,%%4=%d;rad=%s", g.numberSmootherCircles() % 2,
               g.numberSmootherCircles() % 3, g.numberSmootherCircles() % 4, g.ntheta() % 3, g.ntheta() % 4,
               g.lengthSmootherRadial() <= 3 ? "min" : "n");
}

/* ------------------------------ C11: regions ------------------------------ */
Value gen_regions(uint64_t seed, const std::string& tier) { return gen_common(seed, tier, true); }

void run_regions(const Value& plan, Result& r)
{
    BenchSpec spec = BenchSpec::from_json(plan.at("bench"));
    OpInput in     = OpInput::from_json(plan.at("input"));
    Bench b;
    b.build(spec);
    const PolarGrid& g = b.grid(in.level);
    r.signature = fmt("%s L%d %s T=%d %s", op_name(in.op), in.level, shape_class(g).c_str(), spec.T, spec.str().c_str());
    r.probe(std::string("op:") + op_name(in.op));
    if (spec.T >= std::max(g.nr(), g.ntheta()))
        r.probe("T_ge_trip_count");
    if (g.numberOfNodes() > 10000)
        r.probe("above_parallel_threshold");
    r.probe(spec.dirbc ? "dirbc" : "across_origin");
    // F10 (DESIGN 7): with an explicit splitting radius below R0 the inner circle is part of the radial lines; the
    // across-origin coupling then connects two radial lines of the same colour.
    r.race_tag = context_tag(g, spec.dirbc, in.op);
    if (!r.race_tag.empty())
        r.probe("all_radial_split_across_origin");
    // run 1: the plan's schedule (may include team shortfall)
    std::vector<Vector<double>> o1, o2, o3;
    {
        SimRun sr(plan.at("sim"), r);
        exec_op(b, in, o1);
    }
    // runs 2,3: two further schedules with full teams -> outputs must be bit-identical
    Value s2 = plan.at("sim"), s3 = plan.at("sim");
    s2["shortfall_p"] = 0.0;
    s3["shortfall_p"] = 0.0;
    s2["sched_seed"]  = (long long)(sim::mix(plan.at("sim").at("sched_seed").as_u64(), 2) >> 1);
    s3["sched_seed"]  = (long long)(sim::mix(plan.at("sim").at("sched_seed").as_u64(), 3) >> 1);
    s3["policy"]      = (int)sim::POL_NONE;
    {
        SimRun sr(s2, r);
        exec_op(b, in, o2);
    }
    {
        SimRun sr(s3, r);
        exec_op(b, in, o3);
    }
    r.nontrivial = r.sim.par_regions > 0;
    if (r.sim.par_regions > 0)
        r.probe("multi_thread_region_executed");
    if (is_trace() && r.sim.accesses > 0)
        r.probe("monitored");
    if (hash_outputs(in, o2) != hash_outputs(in, o3)) {
        int which = -1, idx = -1;
        for (size_t k = 0; k < comparable(in, o2) && which < 0; k++)
            if (!bit_equal(o2[k], o3[k], &idx))
                which = (int)k;
        r.fail(fmt("schedule_dependent_output%s:%s", r.race_tag.c_str(), op_name(in.op)),
               fmt("two schedules of the same input with the same team sizes give different bits (output %d, index %d): "
                   "%.17g vs %.17g; %s",
                   which, idx, which >= 0 && idx >= 0 ? o2[which][idx] : 0.0,
                   which >= 0 && idx >= 0 ? o3[which][idx] : 0.0, r.signature.c_str()));
    }
    // a NaN in an output means an element was never written (buffers were pre-filled with NaN)
    for (auto& v : o2)
        if (!all_finite(v) && in.kind_x != VK_WIDE) {
            r.fail(fmt("unwritten_output:%s", op_name(in.op)), "output contains NaN/Inf junk: " + r.signature);
            break;
        }
    sim::fp_mix_u64(hash_outputs(in, o1));
}

/* ------------------------------ C12: operators across schedules and T ------------------------------ */
Value gen_repro(uint64_t seed, const std::string& tier)
{
    Value p = gen_common(seed, tier, false);
    Rng g(sim::mix(seed, 0xC12));
    static const int Ts[] = {2, 3, 4, 8, 16, 32};
    p["T2"]               = Ts[g.below(6)];
    return p;
}

void run_repro(const Value& plan, Result& r)
{
    BenchSpec spec = BenchSpec::from_json(plan.at("bench"));
    OpInput in     = OpInput::from_json(plan.at("input"));
    Bench b;
    b.build(spec);
    const PolarGrid& g = b.grid(in.level);
    r.signature        = fmt("%s L%d T=%d/%d %s", op_name(in.op), in.level, spec.T, (int)plan.at("T2").as_int(2),
                      spec.str().c_str());
    r.probe(std::string("op:") + op_name(in.op));
    if (g.numberOfNodes() > 10000)
        r.probe("above_parallel_threshold");
    r.race_tag = context_tag(g, spec.dirbc, in.op);
    // (a) K schedules at fixed T
    std::vector<std::vector<Vector<double>>> outs;
    const int K = 4;
    for (int k = 0; k < K; k++) {
        Value s          = plan.at("sim");
        s["shortfall_p"] = 0.0;
        s["sched_seed"]  = (long long)(sim::mix(plan.at("sim").at("sched_seed").as_u64(), 100 + k) >> 1);
        if (k == 1)
            s["policy"] = (int)sim::POL_RR;
        if (k == 2)
            s["policy"] = (int)sim::POL_NONE;
        outs.emplace_back();
        SimRun sr(s, r);
        exec_op(b, in, outs.back());
    }
    r.nontrivial = true;
    if (r.sim.par_regions > 0)
        r.probe("multi_thread_region_executed");
    for (int k = 1; k < K; k++)
        for (size_t q = 0; q < comparable(in, outs[0]); q++) {
            int idx = -1;
            if (!bit_equal(outs[0][q], outs[k][q], &idx)) {
                r.fail(fmt("C12.run_to_run_bits%s:%s", r.race_tag.c_str(), op_name(in.op)),
                       fmt("schedule %d vs 0, output %zu index %d: %.17g vs %.17g; %s", k, q, idx,
                           idx >= 0 ? outs[k][q][idx] : 0.0, idx >= 0 ? outs[0][q][idx] : 0.0, r.signature.c_str()));
                k = K;
                break;
            }
        }
    // (b) another thread count, and T = 1: difference bounded by re-association
    std::vector<int> otherT = {1, (int)plan.at("T2").as_int(2)};
    for (int T2 : otherT) {
        if (T2 == spec.T)
            continue;
        BenchSpec s2 = spec;
        s2.T         = T2;
        Bench b2;
        b2.build(s2);
        std::vector<Vector<double>> o;
        {
            SimRun sr(canonical_sim(), r);
            exec_op(b2, in, o);
        }
        r.probe(T2 == 1 ? "compared_with_T1" : "compared_with_T2");
        for (size_t q = 0; q < o.size() && q < outs[0].size(); q++) {
            const Vector<double>& a = outs[0][q];
            const Vector<double>& c = o[q];
            if (a.size() != c.size()) {
                r.fail(fmt("C12.size_differs:%s", op_name(in.op)), r.signature);
                break;
            }
            // scale: a-priori bound relative to the magnitude of the data feeding the element (norm-wise)
            double scale = std::max(max_abs(a), max_abs(c));
            double worst = 0;
            int wi       = -1;
            for (int i = 0; i < a.size(); i++) {
                double d = std::fabs(a[i] - c[i]);
                if (std::isnan(a[i]) != std::isnan(c[i]))
                    d = INFINITY;
                if (d > worst) {
                    worst = d;
                    wi    = i;
                }
            }
            // K_op: number of floating-point operations feeding one output element in the worst case times the
            // amplification of the operator (line solves: condition of a diagonally dominant line block)
            double Kop = 4096.0;
            if (in.op == OP_SM_GIVE || in.op == OP_SM_TAKE || in.op == OP_EXSM_GIVE || in.op == OP_EXSM_TAKE ||
                in.op == OP_DS_GIVE || in.op == OP_DS_TAKE)
                Kop = 0; // compared in residual space below
            if (Kop > 0) {
                r.maxim("T_rel_diff_units", scale > 0 ? worst / (Kop * EPS * scale) : 0);
                if (worst > Kop * EPS * scale)
                    r.fail(fmt("C12.thread_count_changes_result:%s", op_name(in.op)),
                           fmt("T=%d vs T=%d output %zu index %d differs by %.3e (scale %.3e, allowed %.3e); %s", spec.T,
                               T2, q, wi, worst, scale, Kop * EPS * scale, r.signature.c_str()));
            }
            else {
                // residual-space comparison with the reference operator
                model::RefOperator A;
                A.build(g, *b.prob.geometry, *b.prob.coeff, spec.dirbc);
                std::vector<double> d(A.n), Ad, xa, absAx;
                for (int m = 0; m < A.n; m++)
                    d[m] = a[A.to_grid[m]] - c[A.to_grid[m]];
                A.apply(d, Ad);
                A.to_model(a, xa);
                A.apply_abs(xa, absAx);
                double s1 = 0, s2n = 0;
                for (int m = 0; m < A.n; m++) {
                    s1  = std::max(s1, std::fabs(Ad[m]));
                    s2n = std::max(s2n, absAx[m]);
                }
                double allowed = 64.0 * 96.0 * EPS * s2n * std::max(1, in.nsweeps) *
                                 ((in.op == OP_DS_GIVE || in.op == OP_DS_TAKE) ? std::sqrt((double)A.n) : 1.0);
                r.maxim("T_residual_diff_units", allowed > 0 ? s1 / allowed : 0);
                if (s1 > allowed)
                    r.fail(fmt("C12.thread_count_changes_result:%s", op_name(in.op)),
                           fmt("T=%d vs T=%d output %zu: ||A(x_T - x_T')||_inf = %.3e > %.3e; %s", spec.T, T2, q, s1,
                               allowed, r.signature.c_str()));
            }
        }
    }
}

/* ------------------------------ C12 (c): vector kernels vs exact ------------------------------ */
Value gen_kernels(uint64_t seed, const std::string& tier)
{
    Rng g(sim::mix(seed, 0xC12C));
    static const int ns[] = {1, 7, 9999, 10000, 10001, 20011, 65537};
    Value p               = Value::object();
    p["n"]                = ns[g.below(tier == "thorough" ? 7 : 6)];
    static const int Ts[] = {1, 2, 3, 4, 7, 8, 16, 32};
    p["T"]                = Ts[g.below(8)];
    p["seed_x"]           = (long long)(g.next() >> 1);
    p["seed_f"]           = (long long)(g.next() >> 1);
    p["kind_x"]           = g.range(0, 4);
    p["kind_f"]           = g.range(0, 4);
    p["alpha"]            = g.uniform(-3, 3);
    p["beta"]             = g.uniform(-3, 3);
    p["sim"]              = gen_sim(g);
    return p;
}

void run_kernels(const Value& plan, Result& r)
{
    const int n = (int)plan.at("n").as_int(1);
    const int T = (int)plan.at("T").as_int(1);
    Vector<double> x = rand_vector(n, plan.at("seed_x").as_u64(), (int)plan.at("kind_x").as_int(0));
    Vector<double> y = rand_vector(n, plan.at("seed_f").as_u64(), (int)plan.at("kind_f").as_int(0));
    const double al = plan.at("alpha").as_double(1), be = plan.at("beta").as_double(1);
    r.signature = fmt("kernels n=%d T=%d kinds=%d,%d", n, T, (int)plan.at("kind_x").as_int(0),
                      (int)plan.at("kind_f").as_int(0));
    r.nontrivial = true;
    if (n > 10000)
        r.probe("above_parallel_threshold");
    else
        r.probe("below_parallel_threshold");
    // exact values (long double, compensated)
    auto csum = [&](auto term) {
        long double s = 0, c = 0;
        for (int i = 0; i < n; i++) {
            long double t  = term(i) - c;
            long double s2 = s + t;
            c              = (s2 - s) - t;
            s              = s2;
        }
        return s;
    };
    long double dot  = csum([&](int i) { return (long double)x[i] * y[i]; });
    long double adot = csum([&](int i) { return std::fabs((long double)x[i] * y[i]); });
    long double l1   = csum([&](int i) { return std::fabs((long double)x[i]); });
    long double l2   = csum([&](int i) { return (long double)x[i] * x[i]; });
    double inf       = 0;
    for (int i = 0; i < n; i++)
        inf = std::max(inf, std::fabs(x[i]));
    double got_dot, got_l1, got_l2, got_inf;
    Vector<double> a, s, lc, m, z(n), cpy;
    {
        SimRun sr(plan.at("sim"), r);
        omp_set_num_threads(T);
        got_dot = dot_product(x, y);
        got_l1  = l1_norm(x);
        got_l2  = l2_norm_squared(x);
        got_inf = infinity_norm(x);
        a       = x;
        add(a, y);
        s = x;
        subtract(s, y);
        lc = x;
        linear_combination(lc, al, y, be);
        m = x;
        multiply(m, al);
        assign(z, be);
        Vector<double> tmp(x);
        cpy = tmp;
    }
    if (r.sim.par_regions > 0)
        r.probe("multi_thread_region_executed");
    auto chk = [&](const char* name, double got, long double exact, long double sumabs) {
        long double bound = 2.0L * (n + 2) * EPS * sumabs + 1e-300L;
        r.maxim(std::string("units:") + name, (double)(std::fabs((long double)got - exact) / bound));
        if (std::fabs((long double)got - exact) > bound)
            r.fail(std::string("C12.kernel_wrong:") + name,
                   fmt("%s: got %.17g exact %.17Lg bound %.3Lg (n=%d T=%d)", name, got, exact, bound, n, T));
    };
    chk("dot_product", got_dot, dot, adot);
    chk("l1_norm", got_l1, l1, l1);
    chk("l2_norm_squared", got_l2, l2, l2);
    if (got_inf != inf)
        r.fail("C12.kernel_wrong:infinity_norm", fmt("got %.17g exact %.17g (n=%d T=%d)", got_inf, inf, n, T));
    for (int i = 0; i < n; i++) {
        if (a[i] != x[i] + y[i]) {
            r.fail("C12.kernel_wrong:add", fmt("index %d n=%d T=%d", i, n, T));
            break;
        }
        if (s[i] != x[i] - y[i]) {
            r.fail("C12.kernel_wrong:subtract", fmt("index %d n=%d T=%d", i, n, T));
            break;
        }
        double e = al * x[i] + be * y[i];
        if (std::fabs(lc[i] - e) > 4 * EPS * (std::fabs(al * x[i]) + std::fabs(be * y[i]))) {
            r.fail("C12.kernel_wrong:linear_combination", fmt("index %d n=%d T=%d: %.17g vs %.17g", i, n, T, lc[i], e));
            break;
        }
        if (m[i] != x[i] * al) {
            r.fail("C12.kernel_wrong:multiply", fmt("index %d n=%d T=%d", i, n, T));
            break;
        }
        if (z[i] != be) {
            r.fail("C12.kernel_wrong:assign", fmt("index %d n=%d T=%d", i, n, T));
            break;
        }
        if (std::memcmp(&cpy[i], &x[i], 8) != 0) {
            r.fail("C12.kernel_wrong:vector_copy", fmt("index %d n=%d T=%d", i, n, T));
            break;
        }
    }
}

Registrar r1({"regions", "C11", "trace", gen_regions, run_regions});
Registrar r2({"repro_ops", "C12", "fast", gen_repro, run_repro});
Registrar r3({"kernels", "C12", "fast,trace", gen_kernels, run_kernels});

} // namespace
