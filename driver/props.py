# Per-property check configuration: scenarios = [(harness scenario, build flavour, runs in the quick tier, share of the
# thorough time box)].
COMMON_NOTE = ("Trusted: model/refop.cpp (sequential reference implementation of the documented stencil), the a-priori "
               "rounding bounds (DESIGN 3.3), g++/libstdc++, and that simgomp implements the GOMP ABI subset faithfully. "
               "The simulator explores sequentially consistent interleavings; sampling, not proof.")


def P(scenarios, rule, technique, level_text, quick_runs=300, quick_budget_s=75, thorough_budget_s=1200,
      expect_probes=(), level="exploration", assumptions=(), note=COMMON_NOTE):
    return {"scenarios": scenarios, "rule": rule, "technique": technique, "level_text": level_text,
            "quick_runs": quick_runs, "quick_budget_s": quick_budget_s, "thorough_budget_s": thorough_budget_s,
            "expect_probes": list(expect_probes), "level": level, "assumptions": list(assumptions), "level_note": note}


PROPS = {
    "C01": P([("solve", "fast", 2000, 1.0)],
             "seeded option vectors over the C01 configuration set (problem triple, grid parameters, boundary mode, strategy, "
             "extrapolation, cycle, FMG, levels, smoothing steps, norm, tolerances, threads, reduction factor) x simulator knobs "
             "(policy, shortfall); non-trivial = setup()+solve() completed and the oracles compared the residual history; "
             "distinct = distinct option signature",
             "deterministic simulation (seeded scheduler + team shortfall) of setup()+solve(); residual-history oracle + "
             "independent reference-operator residual",
             "Seeded exploration of the ~20-dimensional option space; every parallel region of each solve runs under the "
             "deterministic OpenMP simulator (seeded team sizes, shortfall, reduction-combine order). The reported-stop half is "
             "decided against an independent sequential model of the operator.",
             quick_runs=2000, quick_budget_s=90, thorough_budget_s=1800,
             expect_probes=["stopped_early", "rate_set", "fmg_on", "extrapolation_1", "extrapolation_3", "take", "give"]),
    "C03": P([("residual", "fast", 4000, 0.6), ("residual", "trace", 1500, 0.4)],
             "seeded (problem, grid incl. arbitrary radii/angles and any circle/radial split, boundary mode, cache flags, "
             "level of a coarsening chain, input vectors incl. huge dynamic range, thread count 1..64) x schedules; the real "
             "ResidualGive/ResidualTake run under the simulator; distinct = distinct (bench, level) signature",
             "deterministic simulation of the residual operators; refinement against a sequential reference stencil with "
             "a-priori rounding bound; explicit operator columns probed with unit vectors",
             "Give, take, cached and uncached residuals on every level are compared elementwise with f - A_ref u, coarse caches "
             "with a fresh evaluation, and explicit rows (Dirichlet identity, 9/7-point pattern and values) with the model.",
             quick_runs=5500, quick_budget_s=80,
             expect_probes=["coarse_cache_compared", "columns_probed", "all_radial_split", "cache_00", "cache_11"]),
    "C04": P([("directsolver", "fast", 1500, 0.7), ("directsolver", "trace", 600, 0.3)],
             "seeded (problem, grid from nr=5,ntheta=4 up to ~5000 nodes, boundary mode, thread count 2..>lines, right-hand "
             "sides incl. huge dynamic range) x schedules of the 3-colour parallel assembly",
             "deterministic simulation of the parallel CSR assembly + solve; backward-error oracle in the reference operator "
             "and in the other strategy's real residual; cross-schedule bit equality",
             "The solution returned by both direct solvers is fed to the reference operator (normwise backward error bound), "
             "to the other strategy's residual, and compared between strategies and between schedules.",
             quick_runs=2100, quick_budget_s=100, expect_probes=["T_gt_lines", "minimal_grid", "dirbc", "across_origin"]),
    "C05": P([("spd", "fast", 5000, 0.7), ("spd", "trace", 1500, 0.3)],
             "seeded vector pairs vanishing on Dirichlet nodes on seeded grids (non-uniform angles, non-orthogonal mappings); "
             "A x := -(residual with zero rhs) computed by the real operators under the simulator",
             "deterministic simulation of the residual operators and of smoother sweeps on unit right-hand sides; "
             "symmetry/positivity oracle with rounding bound; Cholesky of reference and of recovered library line blocks",
             "<Ax,y> = <x,Ay> and <Ax,x> > 0 for the real give and take operators; the line blocks of the reference operator "
             "are Cholesky-factorisable; the blocks the four smoothers really factorise are observed through one sweep on "
             "x = 0, rhs = e_q (column q of the inverse block): the inverse on the line's non-Dirichlet (fine-only) unknowns "
             "must be symmetric and Cholesky-factorisable.",
             quick_runs=6500, quick_budget_s=60,
             expect_probes=["line_blocks_checked", "factorised_block_checked:smoother_give", "factorised_block_checked:smoother_take",
                            "factorised_block_checked:exsmoother_give", "factorised_block_checked:exsmoother_take",
                            "factorised_circle_block", "factorised_radial_block"]),
    "C06": P([("smoother", "fast", 5000, 0.6), ("smoother", "trace", 2500, 0.4)],
             "seeded smoothing-level grids (ntheta%4==0, both parities of the circle count via the splitting radius), "
             "sequences of 1..4 sweeps (the first sweep factorises lazily inside the parallel region), both strategies, "
             "thread count 1..64 x schedules",
             "deterministic simulation of the smoother sweeps (history = lazy factorisation); per-sweep algebraic invariants "
             "against the reference operator",
             "Per sweep: fixed point at the exact discrete solution, residual zero on the last colour, Dirichlet data set, give "
             "== take, energy norm of the error non-increasing, k-th sweep of a used object == first sweep of a fresh object.",
             quick_runs=7500, quick_budget_s=70,
             expect_probes=["fixed_point_checked", "energy_checked", "history_compared", "circles_parity_0", "circles_parity_1"]),
    "C07": P([("exsmoother", "fast", 5000, 0.6), ("exsmoother", "trace", 2500, 0.4)],
             "as C06 for the extrapolated smoothers on finest-level grids (>=3 circles, >=3 radial nodes)",
             "deterministic simulation of the extrapolated smoother sweeps; byte comparison of coarse nodes, residual on "
             "fine-only nodes of the last colour, fixed point, give == take, history",
             "Coarse nodes are compared as bytes (a NaN or -0.0 cannot hide a rewrite); the other clauses against the reference "
             "operator with the a-priori bound.",
             quick_runs=7500, quick_budget_s=70,
             expect_probes=["coarse_nodes_compared", "fixed_point_checked", "history_compared"]),
    "C08": P([("transfer", "fast", 12000, 0.7), ("transfer", "trace", 2000, 0.3)],
             "seeded fine/coarse pairs from coarsening chains (midpoint-nested and arbitrary radii/angles, any split, below and "
             "above the 10'000-node parallel threshold), thread count 1..32 x schedules, arbitrary vectors",
             "deterministic simulation of all transfer operators; adjointness, optimised==reference, injection o P = id "
             "(bitwise), convexity, linear exactness",
             "All nine Interpolation::apply* operators run under the simulator on both sides of their parallel threshold; "
             "algebraic identities decide. Linear exactness fails on non-midpoint pairs: known finding F6.",
             quick_runs=14000, quick_budget_s=70, expect_probes=["midpoint_pair", "nonmidpoint_pair", "above_parallel_threshold", "explicit_weights_probed"]),
    "C11": P([("regions", "trace", 8000, 0.65), ("solve", "trace", 120, 0.35)],
             "one scenario per parallel region of the library (residual, smoothers, extrapolated smoothers, direct-solver "
             "assembly, level caches, nine transfers, vector kernels) on seeded grid-shape classes (circles mod 2,3,4; ntheta "
             "mod 3,4; minimal sizes; both boundary modes) with team sizes 2..256 (>= trip count of every loop) and team "
             "shortfall, plus whole setup()+solve(); every instrumented access of every run is checked by the HB monitor; "
             "distinct = distinct (operator, level, shape class, team size, bench) signature",
             "deterministic simulation with access-granular seeded preemption; exact happens-before race monitor (the "
             "simulator is the OpenMP runtime) + cross-schedule bit equality of outputs",
             "The HB monitor decides race freedom exactly for the synchronisation performed at each explored (shape, team "
             "size); T >= trip count compares every pair of iterations of a phase. Shapes and team sizes are sampled.",
             quick_runs=8120, quick_budget_s=120, thorough_budget_s=1800,
             expect_probes=["T_ge_trip_count", "above_parallel_threshold", "monitored", "op:smoother_give", "op:exsmoother_take",
                            "op:directsolver_give", "op:residual_give", "op:levelcache_coarse", "op:fmg_interpolation",
                            "op:vector_kernels"]),
    "C12": P([("repro_ops", "fast", 900, 0.4), ("kernels", "fast", 3000, 0.1), ("kernels", "trace", 1000, 0.1), ("repro_solve", "fast", 1500, 0.4)],
             "(a) each operator call / fixed-cycle solve executed under >=4 scheduler seeds with identical team sizes; (b) the "
             "same plan at T=1 and another T in {2,3,4,8,16,32}; (c) vector kernels at n in {1,7,9999,10000,10001,20011,65537} "
             "against the exact (long double, compensated) value",
             "deterministic simulation: deliberately different legal schedules of the same input (bit equality), thread-count "
             "sweep with a-priori re-association bound, kernels vs exact sums",
             "Bit equality is demanded between schedules at fixed team sizes; across thread counts the difference is bounded "
             "a priori (elementwise / residual space). Reduction scalars are checked to rounding, not bitwise.",
             quick_runs=6400, quick_budget_s=120, thorough_budget_s=1800,
             expect_probes=["above_parallel_threshold", "below_parallel_threshold", "compared_with_T1", "multi_thread_region_executed"]),
}

PROPS["C13"] = P([("reuse", "fast", 400, 1.0)],
    "seeded operation histories (length 2..8) on ONE GMGPolar object: option changes (solve-time ones without, structural ones "
    "with a new setup), setup, solve, solve-without-setup, rejected setup (take without caches), setup failing by an injected "
    "bad_alloc, the divideBy2++ refinement loop of convergence_order; every extrapolation mode, FMG on/off, both strategies; "
    "non-trivial = at least two solves compared; distinct = distinct (history length, options) signature",
    "deterministic simulation of call histories with allocation-failure faults; refinement against a freshly constructed "
    "solver under the same canonical schedule (bitwise)",
    "After every solve of a history: solution (bitwise), iteration count, reduction factor and error figures equal those of a "
    "fresh object with the same cumulative options, both run under the canonical schedule with identical team sizes, so any "
    "difference is due to history alone.",
    quick_runs=400, quick_budget_s=110, thorough_budget_s=1800,
    expect_probes=["solve_without_setup", "second_or_later_solve", "rejected_setup", "fault:alloc_fail"])

PROPS["C09"] = P([("fmgop", "fast", 6000, 0.2), ("fmgop", "trace", 1000, 0.1), ("fmgstart", "fast", 3000, 0.7)],
    "(A) the FMG interpolation on seeded fine/coarse pairs (non-uniform radial/angular spacing, every node class, both sides of "
    "the parallel threshold); (B) solve() with maxIterations=0 (start-up only) for 2..6 levels, 0..3 FMG cycles of every type, "
    "with/without extrapolation on (i) a fresh object, (ii) an object whose work vectors were filled with junk (NaN/Inf/large), "
    "(iii) an object that has already solved; distinct = distinct option signature",
    "deterministic simulation; polynomial exactness of the operator; history-independence of the start-up (fresh vs junk-filled "
    "vs used object, bitwise under the canonical schedule) and refinement against the harness's own nested iteration",
    "The start vector must be bit-identical across object histories and schedules, equal the harness's nested iteration "
    "(coarsest direct solve, interpolate, cycles) built from the object's public operators, solve the coarse system when no "
    "start-up cycles are used, and be within 10x of the converged discrete error when >=1 cycle per level is used.",
    quick_runs=10000, quick_budget_s=90, thorough_budget_s=1500,
    expect_probes=["used_object_compared", "interpolated_coarse_solution_compared", "accuracy_compared", "levels_2", "levels_4",
                   "midpoint_pair", "nonmidpoint_pair"])
PROPS["C10"] = P([("cycles", "fast", 6000, 0.6), ("cycles", "trace", 1000, 0.4)],
    "each of the six private cycle functions (through the guarded accessor) for 2..5 levels, pre/post smoothing counts 0..3, both "
    "strategies and boundary modes: (a) iterate = exact solution of the (extrapolated) system, (b) random iterate, two levels, no "
    "smoothing, (c) every scratch vector of every level pre-filled with junk / left by previous cycles",
    "deterministic simulation of single cycles with junk-history faults; fixed-point oracle against the reference model, "
    "algebraic coarse-grid correction from public operators, bitwise junk- and history-independence",
    "(a) unchanged in residual space; (b) equals u + P A_c^-1 R (f - A u) (extrapolated: 4/3 R_ex r - 1/3 r_c(inject u)); (c) "
    "bit-identical with and without NaN junk in the scratch vectors and after previous cycles, under the canonical schedule.",
    quick_runs=7000, quick_budget_s=100, thorough_budget_s=1500,
    expect_probes=["mode_0", "mode_1", "mode_2", "mode_3", "mode_4", "entered_at_depth_1", "history_compared", "cycle_V", "cycle_W", "cycle_F", "cycle_V_ex", "cycle_W_ex",
                   "cycle_F_ex", "levels_3"])

PROPS["C02"] = P([("ladder", "fast", 96, 1.0)],
    "refinement ladders divideBy2 = 0..3 (quick, 17x32 -> 129x256) / 0..4 (thorough, -> 257x512) for every smooth manufactured "
    "problem x geometry x coefficient profile, both boundary treatments (across-origin with R0 <= 1e-5), both strategies, cache "
    "flags, on ONE reused object (the shipped convergence_order pattern) or fresh objects, each solve run under the simulator "
    "(threads 1..8, per-level reduction, seeded schedule); distinct = distinct option signature",
    "deterministic simulation of the convergence_order refinement loop; orders from the recorded error histories",
    "The truth of C02 does not depend on a schedule or fault: the simulator contributes thread count, shortfall, reduction order "
    "and the reused-object history; the oracle is numerical (two-rung order estimates with 0.15 estimation allowance, "
    "extrapolated vs plain on the finest common rung, library error figures vs harness evaluation).",
    quick_runs=96, quick_budget_s=200, thorough_budget_s=1800,
    expect_probes=["order_judged", "extrapolated_ladder", "plain_ladder", "reused_object", "extrapolated_vs_plain_compared",
                   "anisotropic_base_grid", "uniform_base_grid", "annular_domain"])

PROPS["C14"] = P([("trisolve", "fast", 5000, 0.4), ("trisolve", "trace", 2000, 0.3), ("trisolve", "asan", 2000, 0.3)],
    "histories {construct(n, cyclic?), set entries, solve(b), solve(b) again, solve(b') ...} for n = 2,3,4..4096 over SPD "
    "generators (strictly diagonally dominant, L L^T products, zero sub-diagonals, corner elements of either sign, symmetric "
    "row scaling over 1e-5..1e5), DiagonalSolver likewise; a variant runs disjoint solver objects on 2..4 simulated caller "
    "threads under the HB monitor; distinct = distinct (n, family, flags, matrix seed) signature",
    "deterministic simulation of object histories (lazy in-place factorisation) and of caller threads; dense/banded reference "
    "residual with normwise backward-error bound 16 n eps; bit equality of repeated solves",
    "No schedule or I/O is involved in a single solve; the simulated dimension is the object's history (unfactorised -> "
    "factorised) and concurrent use of disjoint objects (no hidden shared scratch).",
    quick_runs=9000, quick_budget_s=60, thorough_budget_s=900,
    expect_probes=["n_class_2_3", "n_class_large", "cyclic", "plain", "repeated_solve", "widely_scaled_rows", "caller_threads", "reassigned"])
PROPS["C15"] = P([("lapool", "fast", 5000, 0.4), ("lapool", "trace", 2500, 0.3), ("lapool", "asan", 2500, 0.3)],
    "operation histories (4..40 ops) over a pool of Vector / SparseMatrixCOO / SparseMatrixCSR / SparseLUSolver / "
    "SymmetricTridiagonalSolver (cyclic or not) / DiagonalSolver objects: construct, set entries, solve, copy-construct, "
    "copy-assign over equal or different size, move-construct, move-assign, self-assign, copy of a default-constructed object, "
    "destroy, solve again; objects partitioned among 1..4 simulated caller threads; bad_alloc injected into copies",
    "deterministic simulation of object histories, caller threads and allocation failures; refinement against a "
    "value-semantics model (element reads; for solvers the solution of the model system)",
    "After every copy/move the target is observationally equal to the source at that moment whatever the source had done "
    "before; later operations on one do not affect the other; after an injected allocation failure the source is unchanged.",
    quick_runs=10000, quick_budget_s=60, thorough_budget_s=900,
    expect_probes=["op:copy_construct", "op:copy_assign", "op:move_construct", "op:move_assign", "op:self_assign",
                   "op:copy_default", "caller_threads", "fault:alloc_fail"])

PROPS["C18"] = P([("gridfiles", "asan", 1200, 0.8), ("gridfiles", "fast", 500, 0.2)],
    "histories {generate(params; domains in other length units up to Rmax = 1300) -> invariants -> every-second-node subgrid -> levels via setup() -> writeToFile(precision 12..25) -> "
    "fault -> load / setup(load_grid_file)} over nr_exp 1..7, ntheta_exp -1..8, anisotropic_factor 0..6, divideBy2 0..3, R0, Rmax, "
    "refinement radius inside / outside / at the ends of [R0,Rmax] and the CLI default 0, level caps; faults: open_fail, "
    "write_fail (ENOSPC/EIO), short_write, crash_after_write (clean or torn) at EVERY write index of small grids over the previous "
    "generation of the files, crash between the two files, truncate, torn last line, delete, empty, flipped byte, stale "
    "generation, swapped files, appended garbage, nan/inf token, locale comma, a line duplicated over its neighbour, a line deleted, a stray "
    "line inserted, a rewrite with 1-4 significant digits, read EIO, short reads; user-supplied radii/angle vectors with one defect (repeated, swapped, "
    "zero, negative, NaN radius; repeated/swapped/unpaired/inserted/deleted angle; missing 0 or 2*pi; too few entries; one-ulp gap); annuli so "
    "thin that nodes collapse in double precision",
    "deterministic simulation with file-system fault injection (libc I/O seam) in the ASan+UBSan+assert build; validity "
    "invariants or exception; strict round trip when fault-free; enumerated crash points",
    "Accepted parameter sets must yield valid, nested, coarsenable grids with exactly R0/Rmax ends; rejected ones an exception "
    "(never an assertion, sanitizer report or crash). After any file fault the load either throws or yields a grid satisfying "
    "the validity invariants. Write-index crash points of small grids are enumerated, the other fault kinds sampled.",
    quick_runs=1700, quick_budget_s=120, thorough_budget_s=1500,
    expect_probes=["parameters_accepted", "parameters_rejected", "refinement_radius_outside_domain", "anisotropic",
                   "round_trip", "load_rejected", "load_accepted", "crash_points_enumerated", "levels_checked",
                   "solver_loaded_grid", "nesting_checked", "explicit_grid_set_up", "explicit_grid_solved",
                   "vectors_rejected", "vectors_accepted", "fault:duplicate_line", "fault:coarse_precision",
                   "fault:delete_line", "fault:insert_line", "mutation:insert_angle", "mutation:delete_angle"])
PROPS["C20"] = P([("options", "asan", 1200, 0.4), ("options", "fast", 1200, 0.35), ("cli", "asan", 3000, 0.25)],
    "(a) option vectors through every public setter: all problem triples incl. Culham-free set, grids down to the smallest, "
    "anisotropic factor with refinement radius anywhere (incl. the CLI default 0), disabled tolerances, zero smoothing steps, zero "
    "iterations, level caps 1..6, take without caches, 1..12 threads, arbitrary reduction factor, out-of-range enum integers, "
    "second solve, deep hierarchies of anisotropic grids; (b) generated argv for the command-line program run in-process (incl. malformed command lines)",
    "deterministic simulation in the ASan+UBSan+assert build (rejected-or-completes, no sanitizer/assert/deadlock) and "
    "memory-poison differential in the fast build (same plan under two heap/stack poison patterns => bit-identical statistics "
    "and solution)",
    "Outcome must be an exception / non-zero exit or completion; every statistic must be finite/in range, the mean reduction "
    "factor must be (last/first)^(1/iterations) of the residual history whichever tolerance is enabled, and independent of the "
    "poison pattern (the deterministic stand-in for MemorySanitizer, which is not usable here).",
    quick_runs=5400, quick_budget_s=130, thorough_budget_s=1800,
    expect_probes=["completed", "rejected", "both_tolerances_disabled", "zero_iterations", "zero_smoothing_steps", "level_cap_2",
                   "take_without_caches", "poison_differential", "exit", "returned", "exception", "catalogue_supported",
                   "catalogue_unsupported", "rho_checked", "rho_checked_relative_tolerance_disabled",
                   "rho_checked_absolute_tolerance_disabled", "error_figures_checked"])

NOT_APPLICABLE = {
    "C16": "pure sequential function (A,b)->x: SparseLUSolver factorises in its constructor, solveInPlace is const; no schedule, clock, I/O, fault or history for a simulator to own (DESIGN.md 9.3)",
    "C17": "PolarGrid is an immutable value object built sequentially; every query is a pure function of its arrays (DESIGN.md 9.3)",
    "C19": "closed-form const functions of (r,theta); no state, no parallel region, no I/O (DESIGN.md 9.3)",
}
PENDING = {}

PROPS["C20"]["valgrind_samples"] = 8
PROPS["C13"]["valgrind_samples"] = 4
