# Per-property check configuration: which scenarios (harness scenario name, build flavour, share of the budget).
PROPS = {
    "C01": {
        "scenarios": [("solve", "fast", 1.0)],
        "quick_runs": 400, "quick_budget_s": 100, "thorough_budget_s": 1800,
        "level": "exploration",
        "technique": "deterministic simulation (seeded scheduler + team shortfall) of setup()+solve(); residual-history oracle + independent reference-operator residual",
        "level_text": "Seeded exploration of the ~20-dimensional option space with every parallel region of each solve run under the "
                      "deterministic OpenMP simulator (seeded team sizes, shortfall, reduction-combine order). Sampling, not proof: "
                      "a clean batch is evidence. The reported-stop half is decided against an independent sequential model of the operator.",
        "level_note": "Trusted: model/refop.cpp (documented stencil), the a-priori rounding bound, g++/libstdc++. The simulator executes "
                      "sequentially consistent interleavings only.",
        "rule": "seeded option vectors over the C01 configuration set (problem triple, grid parameters, boundary mode, "
                "strategy, extrapolation, cycle, FMG, levels, smoothing steps, norm, tolerances, threads, reduction factor) "
                "x simulator knobs (policy, shortfall); a run is non-trivial when setup()+solve() completed and the "
                "oracles compared the residual history; distinct = distinct option signature",
        "expect_probes": ["stopped_early", "rate_set", "fmg_on", "extrapolation_1", "extrapolation_3", "take", "give"],
        "assumptions": ["reference operator model/refop.cpp implements the documented stencil",
                        "a-priori rounding bound c*m*eps*(|A||u|+|f|), c=8, m=12"],
    },
}

NOT_APPLICABLE = {
    "C16": "pure sequential function (A,b)->x: SparseLUSolver factorises in its constructor, solveInPlace is const; no schedule, clock, I/O, fault or history for a simulator to own (DESIGN.md 9.3)",
    "C17": "PolarGrid is an immutable value object built sequentially; every query is a pure function of its arrays (DESIGN.md 9.3)",
    "C19": "closed-form const functions of (r,theta); no state, no parallel region, no I/O (DESIGN.md 9.3)",
}
PENDING = {k: "check under construction at this commit (see DESIGN.md section 6); not claimed yet" for k in
           ["C02", "C03", "C04", "C05", "C06", "C07", "C08", "C09", "C10", "C11", "C12", "C13", "C14", "C15", "C18", "C20"]}
