#!/usr/bin/env python3
"""Regenerates /verif/MANIFEST.json from driver/props.py (claimed checks) and the fixed not-applicable list."""
import json, os, sys
ROOT = os.path.dirname(os.path.dirname(os.path.abspath(__file__)))
sys.path.insert(0, os.path.join(ROOT, "driver"))
from props import PROPS, NOT_APPLICABLE, PENDING

checks = []
for pid in sorted(PROPS):
    c = PROPS[pid]
    checks.append({
        "property_id": pid,
        "quick_cmd": "./check %s quick" % pid,
        "thorough_cmd": "./check %s thorough" % pid,
        "evidence_file": "evidence/%s.json" % pid,
        "replay_cmd_template": "./check replay {path}",
        "engine": "gmgsim",
        "level_claimed": {"category": c.get("level", "exploration"), "text": c["level_text"], "design_ref": c.get("design_ref", "DESIGN.md section 6, " + pid)},
        "level_note": c["level_note"],
        "technique": c["technique"],
    })
na = [{"property_id": k, "reason": v} for k, v in sorted(NOT_APPLICABLE.items())]
na += [{"property_id": k, "reason": v} for k, v in sorted(PENDING.items()) if k not in PROPS]
m = {
    "version": 1,
    "setup_cmd": "./check build fast trace asan && ./check selftest",
    "hooks": {
        "guard": "GMGPOLAR_VERIF",
        "enable": "the harness Makefile compiles every /repo source with -DGMGPOLAR_VERIF (friend struct GMGPolarVerifAccess in include/GMGPolar/gmgpolar.h); no other source hook: the OpenMP runtime, clock, allocator, libc I/O and __tsan_* callbacks are link-time seams",
        "baseline_off_cmd": "cmake --build /repo/_build && ctest --test-dir /repo/_build -j8 --timeout 900",
        "source_commits": ["2ef0e99"],
        "add_only": True,
    },
    "engines": [{
        "name": "gmgsim", "path": "build/<flavour>/gmgsim (sources: sim/ model/ harness/ scen/ ; driver: ./check)",
        "serves_properties": sorted(PROPS),
        "kind_free_text": "deterministic simulation: own OpenMP runtime (seeded scheduler over parked pthreads), own __tsan callbacks (access-granular preemption + happens-before monitor), simulated clock, allocator and file-system fault seams, seeded plan generation, reference models, shrinking and fresh-process replay",
    }],
    "checks": checks,
    "not_applicable": na,
    "notes": "See DESIGN.md. Known findings (genuine defects recorded, not repaired) are listed in known_findings.txt; checks print KNOWN-FINDING lines for them and exit 0.",
}
json.dump(m, open(os.path.join(ROOT, "MANIFEST.json"), "w"), indent=1)
print("MANIFEST.json written: %d checks, %d not applicable" % (len(checks), len(na)))
