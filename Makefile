# Builds the simulation harness "gmgsim" in three flavours from /repo's CURRENT working tree.
#   make FLAVOUR=fast|trace|asan         (objects cached under build/<flavour>, header deps via -MMD)
REPO    ?= /repo
FLAVOUR ?= fast
B       := build/$(FLAVOUR)
BC      := build/common
CXX     := g++
STD     := -std=c++20
INC     := -I$(REPO)/include -I$(REPO)/src/PolarGrid -I$(REPO)/src/InputFunctions
DEFS    := -DGMGPOLAR_VERIF -UNDEBUG
WARN    := -w

ifeq ($(FLAVOUR),fast)
  LIBFLAGS  := -O2 -g1 -fopenmp
  SCENFLAGS := -O1 -g1 -fopenmp -DSIM_FLAVOUR_FAST
  SIMFLAGS  := -O2 -g1 -DSIM_FLAVOUR_FAST
  LDFLAGS   := -Wl,--wrap=exit
endif
ifeq ($(FLAVOUR),trace)
  LIBFLAGS  := -O1 -g1 -fopenmp -fsanitize=thread
  SCENFLAGS := -O1 -g1 -fopenmp -fsanitize=thread -DSIM_FLAVOUR_TRACE
  SIMFLAGS  := -O2 -g1 -DSIM_FLAVOUR_TRACE -DSIM_TRACE -DSIM_WRAP_MEM
  LDFLAGS   := -Wl,--wrap=memcpy,--wrap=memmove,--wrap=memset,--wrap=exit
endif
ifeq ($(FLAVOUR),asan)
  SAN       := -fsanitize=address,undefined -fno-sanitize-recover=undefined -fno-omit-frame-pointer
  LIBFLAGS  := -O1 -g1 -fopenmp $(SAN) -D_GLIBCXX_ASSERTIONS
  SCENFLAGS := -O1 -g1 -fopenmp $(SAN) -D_GLIBCXX_ASSERTIONS -DSIM_FLAVOUR_ASAN
  SIMFLAGS  := -O1 -g1 $(SAN) -DSIM_FLAVOUR_ASAN -DSIM_NO_NEW_INTERPOSE
  LDFLAGS   := $(SAN) -Wl,--wrap=exit
endif

# --- library sources from the repo's working tree (found at make time, so new/removed files are picked up)
LIB_SRCS := $(shell find $(REPO)/src -name '*.cpp' -not -path '*/InputFunctions/*' \
              -not -name main.cpp -not -name convergence_order.cpp -not -name weak_scaling.cpp -not -name strong_scaling.cpp | sort)
IF_SRCS  := $(shell find $(REPO)/src/InputFunctions -name '*.cpp' | sort)
LIB_OBJS := $(patsubst $(REPO)/src/%.cpp,$(B)/lib/%.o,$(LIB_SRCS))
IF_OBJS  := $(patsubst $(REPO)/src/%.cpp,$(BC)/%.o,$(IF_SRCS))
MAIN_OBJ := $(B)/lib/cli_main.o

SCEN_SRCS := $(sort $(wildcard scen/*.cpp)) harness/common.cpp harness/solver_cfg.cpp
SCEN_OBJS := $(patsubst %.cpp,$(B)/v/%.o,$(SCEN_SRCS))
SIM_SRCS  := sim/simgomp.cpp sim/simtrace.cpp sim/simenv.cpp model/refop.cpp harness/main.cpp
SIM_OBJS  := $(patsubst %.cpp,$(B)/v/%.o,$(SIM_SRCS))

all: $(B)/gmgsim

# library objects first on the link line: for COMDAT (inline/template) functions the first definition wins, and in
# the trace flavour that must be the instrumented one.
$(B)/gmgsim: $(LIB_OBJS) $(MAIN_OBJ) $(IF_OBJS) $(SCEN_OBJS) $(SIM_OBJS)
	@echo "  LINK $@"
	@$(CXX) -no-pie -o $@.tmp $(LIB_OBJS) $(MAIN_OBJ) $(SCEN_OBJS) $(SIM_OBJS) $(IF_OBJS) $(LDFLAGS) -lpthread -ldl
	@mv $@.tmp $@

$(B)/lib/%.o: $(REPO)/src/%.cpp
	@mkdir -p $(dir $@)
	@$(CXX) $(STD) $(WARN) $(LIBFLAGS) $(DEFS) $(INC) -MMD -MP -c $< -o $@

# the command-line program, with main renamed so that the harness can drive it in-process
$(MAIN_OBJ): $(REPO)/src/main.cpp
	@mkdir -p $(dir $@)
	@$(CXX) $(STD) $(WARN) $(LIBFLAGS) $(DEFS) $(INC) -Dmain=gmgpolar_cli_main -MMD -MP -c $< -o $@

# input functions: pure arithmetic on const objects, shared by all flavours
$(BC)/%.o: $(REPO)/src/%.cpp
	@mkdir -p $(dir $@)
	@$(CXX) $(STD) $(WARN) -O1 -g0 $(DEFS) $(INC) -MMD -MP -c $< -o $@

$(B)/v/scen/%.o: scen/%.cpp
	@mkdir -p $(dir $@)
	@$(CXX) $(STD) $(WARN) $(SCENFLAGS) $(DEFS) $(INC) -I. -MMD -MP -c $< -o $@
$(B)/v/harness/common.o: harness/common.cpp
	@mkdir -p $(dir $@)
	@$(CXX) $(STD) $(WARN) $(SCENFLAGS) $(DEFS) $(INC) -I. -MMD -MP -c $< -o $@
$(B)/v/harness/solver_cfg.o: harness/solver_cfg.cpp
	@mkdir -p $(dir $@)
	@$(CXX) $(STD) $(WARN) $(SCENFLAGS) $(DEFS) $(INC) -I. -MMD -MP -c $< -o $@
$(B)/v/%.o: %.cpp
	@mkdir -p $(dir $@)
	@$(CXX) $(STD) $(WARN) $(SIMFLAGS) $(DEFS) $(INC) -I. -MMD -MP -c $< -o $@

-include $(shell find build -name '*.d' 2>/dev/null)

clean:
	rm -rf build
.PHONY: all clean
