#include "common.h"
#include "GMGPolar/test_cases.h"
#include <cstdarg>
#include <sstream>
#include <algorithm>

namespace hs {

/* ---------------------------------------------------------------- */
static std::vector<Scenario>& reg()
{
    static std::vector<Scenario> v;
    return v;
}
void register_scenario(const Scenario& s) { reg().push_back(s); }
const std::vector<Scenario>& scenarios() { return reg(); }

const char* flavour()
{
#if defined(SIM_FLAVOUR_TRACE)
    return "trace";
#elif defined(SIM_FLAVOUR_ASAN)
    return "asan";
#else
    return "fast";
#endif
}

std::string fmt(const char* f, ...)
{
    char buf[2048];
    va_list ap;
    va_start(ap, f);
    vsnprintf(buf, sizeof buf, f, ap);
    va_end(ap);
    return buf;
}

void Result::absorb_sim()
{
    const sim::Stats& s = sim::stats();
    sim.regions += s.regions;
    sim.par_regions += s.par_regions;
    sim.switches += s.switches;
    sim.sched_points += s.sched_points;
    sim.barriers += s.barriers;
    sim.accesses += s.accesses;
    sim.shortfalls += s.shortfalls;
    sim.atomics += s.atomics;
    sim.nested += s.nested;
    sim.preemptions += s.preemptions;
    sim.checked += s.checked;
    sim.clock_faults += s.clock_faults;
    for (int i = 0; i < 9; i++)
        sim.team_hist[i] += s.team_hist[i];
    sim.max_team = std::max(sim.max_team, s.max_team);
    sim_time_ns += s.sim_time_ns;
    sim.sched_fp = sim::fnv1a_u64(sim.sched_fp, s.sched_fp);
    for (auto& kv : s.by_fn) {
        sim::RegionStat& d = by_fn[kv.first];
        d.count += kv.second.count;
        d.parallel += kv.second.parallel;
        d.max_team = std::max(d.max_team, kv.second.max_team);
        d.max_req  = std::max(d.max_req, kv.second.max_req);
        d.shortfalls += kv.second.shortfalls;
    }
    fingerprint = sim::fnv1a_u64(fingerprint ? fingerprint : sim::FNV_INIT, sim::fingerprint());
    executions++;
    for (const sim::RaceReport& q : sim::races()) {
        std::string cls = fmt("race%s:%p|%p", race_tag.c_str(), q.pc_a < q.pc_b ? q.pc_a : q.pc_b, q.pc_a < q.pc_b ? q.pc_b : q.pc_a);
        fail(cls, fmt("data race: %s of %d bytes by thread %d at pc %p vs earlier %s of %d bytes by thread %d at pc %p; "
                      "addr=%p alloc#%ld+%ld region_fn=%p team=%d",
                      q.write_b ? "write" : "read", q.size_b, q.tid_b, q.pc_b, q.write_a ? "write" : "read", q.size_a,
                      q.tid_a, q.pc_a, (void*)q.addr, q.alloc_id, q.alloc_off, q.region_fn, q.team));
    }
}

/* ---------------------------------------------------------------- */
Value gen_sim(Rng& g, bool allow_shortfall)
{
    Value v          = Value::object();
    v["sched_seed"]  = (long long)(g.next() >> 1);
    int pol;
    if (is_trace()) {
        static const int pols[] = {sim::POL_NONE, sim::POL_RANDOM, sim::POL_RANDOM, sim::POL_PCT, sim::POL_STARVE,
                                   sim::POL_RR};
        pol                     = pols[g.below(6)];
    }
    else {
        static const int pols[] = {sim::POL_NONE, sim::POL_NONE, sim::POL_STARVE, sim::POL_PCT, sim::POL_RR};
        pol                     = pols[g.below(5)];
    }
    v["policy"]      = pol;
    v["preempt_p"]   = g.loguniform(1e-5, 2e-2);
    v["pct_depth"]   = g.range(1, 4);
    v["starve_tid"]  = g.range(0, 7);
    v["shortfall_p"] = (allow_shortfall && g.chance(0.35)) ? g.uniform(0.05, 0.5) : 0.0;
    v["clock_jump_p"] = g.chance(0.3) ? g.loguniform(1e-3, 0.2) : 0.0;
    return v;
}
Value canonical_sim()
{
    Value v          = Value::object();
    v["sched_seed"]  = 1;
    v["policy"]      = (int)sim::POL_RR;
    v["preempt_p"]   = 0.0;
    v["pct_depth"]   = 1;
    v["starve_tid"]  = 0;
    v["shortfall_p"] = 0.0;
    v["clock_jump_p"] = 0.0;
    return v;
}
sim::Config sim_from(const Value& v)
{
    sim::Config c;
    c.sched_seed  = v.at("sched_seed").as_u64(1);
    c.policy      = (int)v.at("policy").as_int(0);
    c.preempt_p   = v.at("preempt_p").as_double(0);
    c.pct_depth   = (int)v.at("pct_depth").as_int(2);
    c.starve_tid  = (int)v.at("starve_tid").as_int(1);
    c.shortfall_p = v.at("shortfall_p").as_double(0);
    c.clock_jump_p = v.at("clock_jump_p").as_double(0);
    c.monitor     = v.has("monitor") ? v.at("monitor").as_bool(true) : true;
    return c;
}
SimRun::SimRun(const Value& simcfg, Result& res) : r(res) { sim::begin_run(sim_from(simcfg)); }
SimRun::SimRun(const sim::Config& c, Result& res) : r(res) { sim::begin_run(c); }
void SimRun::finish()
{
    if (done)
        return;
    done = true;
    sim::end_run();
    r.absorb_sim();
}
SimRun::~SimRun() { finish(); }

/* ---------------------------------------------------------------- */
Value ProblemSpec::to_json() const
{
    Value v         = Value::object();
    v["geometry"]   = geometry;
    v["problem"]    = problem;
    v["coeff"]      = coeff;
    v["Rmax"]       = Rmax;
    v["p1"]         = p1;
    v["p2"]         = p2;
    v["alpha_jump"] = alpha_jump;
    if (scale_exp != 0)
        v["scale_exp"] = scale_exp;
    return v;
}
ProblemSpec ProblemSpec::from_json(const Value& v)
{
    ProblemSpec s;
    s.geometry   = (int)v.at("geometry").as_int(0);
    s.problem    = (int)v.at("problem").as_int(0);
    s.coeff      = (int)v.at("coeff").as_int(0);
    s.Rmax       = v.at("Rmax").as_double(1.3);
    s.p1         = v.at("p1").as_double(0.3);
    s.p2         = v.at("p2").as_double(0.2);
    s.alpha_jump = v.at("alpha_jump").as_double(0.5);
    s.scale_exp  = v.has("scale_exp") ? (int)v.at("scale_exp").as_int(0) : 0;
    return s;
}
std::string ProblemSpec::str() const
{
    static const char* gn[] = {"Circular", "Shafranov", "Czarny", "Culham"};
    static const char* pn[] = {"CartesianR2", "CartesianR6", "PolarR6", "Refined"};
    static const char* cn[] = {"Poisson", "Sonnendrucker", "SonnendruckerGyro", "Zoni", "ZoniGyro", "ZoniShifted",
                               "ZoniShiftedGyro"};
    return fmt("%s/%s/%s%s", gn[geometry & 3], pn[problem & 3], cn[coeff % 7],
               scale_exp ? fmt("*2^%d", scale_exp).c_str() : "");
}

#define MK_GEO3(VAR, PFX)                                                                                              \
    if (s.geometry == 0)                                                                                               \
        VAR = std::make_unique<PFX##CircularGeometry>(s.Rmax);                                                         \
    else if (s.geometry == 1)                                                                                          \
        VAR = std::make_unique<PFX##ShafranovGeometry>(s.Rmax, s.p1, s.p2);                                            \
    else if (s.geometry == 2)                                                                                          \
        VAR = std::make_unique<PFX##CzarnyGeometry>(s.Rmax, s.p1, s.p2);

#define MK_SRC(P)                                                                                                      \
    switch (s.coeff) {                                                                                                 \
    case 0: MK_GEO3(p.source, P##_Poisson_) break;                                                                     \
    case 1: MK_GEO3(p.source, P##_Sonnendrucker_) break;                                                               \
    case 2: MK_GEO3(p.source, P##_SonnendruckerGyro_) break;                                                           \
    case 3: MK_GEO3(p.source, P##_Zoni_) break;                                                                        \
    case 4: MK_GEO3(p.source, P##_ZoniGyro_) break;                                                                    \
    case 5: MK_GEO3(p.source, P##_ZoniShifted_) break;                                                                 \
    case 6: MK_GEO3(p.source, P##_ZoniShiftedGyro_) break;                                                             \
    }

namespace {
// the same profile in other physical units: alpha and beta times a power of two (exact in floating point, so every
// operator entry scales exactly and a relative oracle needs no change)
struct ScaledCoefficients : DensityProfileCoefficients {
    std::unique_ptr<DensityProfileCoefficients> inner;
    double f;
    ScaledCoefficients(std::unique_ptr<DensityProfileCoefficients> in, int e) : inner(std::move(in)), f(std::ldexp(1.0, e)) {}
    double alpha(const double& r) const override { return f * inner->alpha(r); }
    double beta(const double& r) const override { return f * inner->beta(r); }
    double getAlphaJump() const override { return inner->getAlphaJump(); }
};
} // namespace

static Problem make_problem_unscaled(const ProblemSpec& s);
Problem make_problem(const ProblemSpec& s)
{
    Problem p = make_problem_unscaled(s);
    if (s.scale_exp != 0)
        p.coeff = std::make_unique<ScaledCoefficients>(std::move(p.coeff), s.scale_exp);
    return p;
}
static Problem make_problem_unscaled(const ProblemSpec& s)
{
    Problem p;
    switch (s.geometry) {
    case 0: p.geometry = std::make_unique<CircularGeometry>(s.Rmax); break;
    case 1: p.geometry = std::make_unique<ShafranovGeometry>(s.Rmax, s.p1, s.p2); break;
    case 2: p.geometry = std::make_unique<CzarnyGeometry>(s.Rmax, s.p1, s.p2); break;
    case 3: p.geometry = std::make_unique<CulhamGeometry>(s.Rmax); break;
    default: throw std::runtime_error("bad geometry");
    }
    switch (s.coeff) {
    case 0: p.coeff = std::make_unique<PoissonCoefficients>(s.Rmax, s.alpha_jump); break;
    case 1: p.coeff = std::make_unique<SonnendruckerCoefficients>(s.Rmax, s.alpha_jump); break;
    case 2: p.coeff = std::make_unique<SonnendruckerGyroCoefficients>(s.Rmax, s.alpha_jump); break;
    case 3: p.coeff = std::make_unique<ZoniCoefficients>(s.Rmax, s.alpha_jump); break;
    case 4: p.coeff = std::make_unique<ZoniGyroCoefficients>(s.Rmax, s.alpha_jump); break;
    case 5: p.coeff = std::make_unique<ZoniShiftedCoefficients>(s.Rmax, s.alpha_jump); break;
    case 6: p.coeff = std::make_unique<ZoniShiftedGyroCoefficients>(s.Rmax, s.alpha_jump); break;
    default: throw std::runtime_error("bad coeff");
    }
    if (s.geometry == 3) {
        if (s.coeff != 6 || (s.problem != 2 && s.problem != 3))
            throw std::runtime_error("Culham only with ZoniShiftedGyro and PolarR6/Refined");
        if (s.problem == 2) {
            p.exact  = std::make_unique<PolarR6_CulhamGeometry>(s.Rmax);
            p.bc     = std::make_unique<PolarR6_Boundary_CulhamGeometry>(s.Rmax);
            p.source = std::make_unique<PolarR6_ZoniShiftedGyro_CulhamGeometry>(s.Rmax);
        }
        else {
            p.exact  = std::make_unique<Refined_CulhamGeometry>(s.Rmax);
            p.bc     = std::make_unique<Refined_Boundary_CulhamGeometry>(s.Rmax);
            p.source = std::make_unique<Refined_ZoniShiftedGyro_CulhamGeometry>(s.Rmax);
        }
        return p;
    }
    switch (s.problem) {
    case 0:
        MK_GEO3(p.exact, CartesianR2_)
        MK_GEO3(p.bc, CartesianR2_Boundary_)
        MK_SRC(CartesianR2)
        break;
    case 1:
        MK_GEO3(p.exact, CartesianR6_)
        MK_GEO3(p.bc, CartesianR6_Boundary_)
        MK_SRC(CartesianR6)
        break;
    case 2:
        MK_GEO3(p.exact, PolarR6_)
        MK_GEO3(p.bc, PolarR6_Boundary_)
        MK_SRC(PolarR6)
        break;
    case 3:
        if (s.coeff != 6)
            throw std::runtime_error("Refined only with ZoniShiftedGyro");
        MK_GEO3(p.exact, Refined_)
        MK_GEO3(p.bc, Refined_Boundary_)
        MK_GEO3(p.source, Refined_ZoniShiftedGyro_)
        break;
    default: throw std::runtime_error("bad problem");
    }
    return p;
}

// A mapping is admissible when its Jacobian determinant is positive, finite and bounded away from zero on the
// whole domain (otherwise the PDE is not elliptic there and no property is claimed).
bool geometry_valid(const ProblemSpec& s)
{
    std::unique_ptr<DomainGeometry> geo;
    switch (s.geometry) {
    case 0: return true;
    case 1: geo = std::make_unique<ShafranovGeometry>(s.Rmax, s.p1, s.p2); break;
    case 2: geo = std::make_unique<CzarnyGeometry>(s.Rmax, s.p1, s.p2); break;
    default: return true;
    }
    double dmin = 1e300, dmax = 0;
    for (int i = 1; i <= 40; i++)
        for (int j = 0; j < 64; j++) {
            double r = s.Rmax * i / 40.0, t = 2.0 * M_PI * j / 64.0, sn = std::sin(t), cs = std::cos(t);
            double det = geo->dFx_dr(r, t, sn, cs) * geo->dFy_dt(r, t, sn, cs) -
                         geo->dFx_dt(r, t, sn, cs) * geo->dFy_dr(r, t, sn, cs);
            if (!std::isfinite(det))
                return false;
            det /= r; // polar maps have det ~ r
            dmin = std::min(dmin, det);
            dmax = std::max(dmax, det);
        }
    return dmin > 0 && dmin > 0.1 * dmax;
}

ProblemSpec gen_problem(Rng& g, bool smooth_only, bool allow_culham)
{
    for (int attempt = 0; attempt < 50; attempt++) {
        ProblemSpec s = gen_problem_raw(g, smooth_only, allow_culham);
        if (geometry_valid(s))
            return s;
    }
    ProblemSpec s;
    s.geometry = 0;
    s.p1 = s.p2 = 0;
    return s;
}

ProblemSpec gen_problem_raw(Rng& g, bool smooth_only, bool allow_culham)
{
    ProblemSpec s;
    s.Rmax = 1.3;
    if (allow_culham && g.chance(0.05)) {
        s.geometry = 3;
        s.coeff    = 6;
        s.problem  = g.chance(0.5) ? 2 : 3;
        s.alpha_jump = 0.7081 * s.Rmax;
        return s;
    }
    s.geometry = g.range(0, 2);
    s.problem  = g.range(0, smooth_only ? 2 : 3);
    if (s.problem == 3)
        s.coeff = 6;
    else
        s.coeff = g.range(0, 6);
    // shape parameters in a neighbourhood of the values the repository ships (kappa 0.3, delta 0.2; epsilon 0.3, e 1.4).
    // Far outside it (e.g. kappa = 0.498, an aspect ratio of 3) the mapping is still invertible but the V-cycle with
    // zebra line smoothing diverges on >= 4 levels: no property promises convergence there (DESIGN 7, scoping).
    if (s.geometry == 1) {
        s.p1 = g.chance(0.15) ? 0.0 : g.uniform(0.0, 0.35);
        s.p2 = g.chance(0.15) ? 0.0 : g.uniform(0.0, 0.25);
    }
    else if (s.geometry == 2) {
        s.p1 = g.uniform(0.15, 0.4);
        s.p2 = g.uniform(1.0, 1.6);
    }
    else {
        s.p1 = 0;
        s.p2 = 0;
    }
    static const double jumps[] = {0.4837, 0.5, 0.66, 0.678, 0.7081, 0.9};
    s.alpha_jump                = jumps[g.below(6)] * s.Rmax;
    return s;
}

/* ---------------------------------------------------------------- */
Value GridSpec::to_json() const
{
    Value v                = Value::object();
    v["kind"]              = kind;
    v["R0"]                = R0;
    v["Rmax"]              = Rmax;
    v["nr_exp"]            = nr_exp;
    v["ntheta_exp"]        = ntheta_exp;
    v["aniso"]             = aniso;
    v["divideBy2"]         = divideBy2;
    v["refinement_radius"] = refinement_radius;
    v["nr"]                = nr;
    v["ntheta"]            = ntheta;
    v["seed"]              = (long long)seed;
    v["ratio"]             = ratio;
    v["midpoint"]          = midpoint;
    v["nest"]              = nest;
    v["uniform_theta"]     = uniform_theta;
    v["split_mode"]        = split_mode;
    v["split"]             = split;
    return v;
}
GridSpec GridSpec::from_json(const Value& v)
{
    GridSpec s;
    s.kind              = (int)v.at("kind").as_int(1);
    s.R0                = v.at("R0").as_double(1e-5);
    s.Rmax              = v.at("Rmax").as_double(1.3);
    s.nr_exp            = (int)v.at("nr_exp").as_int(3);
    s.ntheta_exp        = (int)v.at("ntheta_exp").as_int(3);
    s.aniso             = (int)v.at("aniso").as_int(0);
    s.divideBy2         = (int)v.at("divideBy2").as_int(0);
    s.refinement_radius = v.at("refinement_radius").as_double(0.5);
    s.nr                = (int)v.at("nr").as_int(9);
    s.ntheta            = (int)v.at("ntheta").as_int(8);
    s.seed              = v.at("seed").as_u64(1);
    s.ratio             = v.at("ratio").as_double(1.0);
    s.midpoint          = v.at("midpoint").as_bool(true);
    s.nest              = (int)v.at("nest").as_int(1);
    s.uniform_theta     = v.at("uniform_theta").as_bool(false);
    s.split_mode        = (int)v.at("split_mode").as_int(0);
    s.split             = v.at("split").as_double(0);
    return s;
}
std::string GridSpec::str() const
{
    if (kind == 0)
        return fmt("param(nr_exp=%d,nt_exp=%d,aniso=%d,div=%d,R0=%g,rr=%g,split=%d:%g)", nr_exp, ntheta_exp, aniso,
                   divideBy2, R0, refinement_radius, split_mode, split);
    return fmt("explicit(%dx%d,ratio=%g,mid=%d,nest=%d,R0=%g,split=%d:%g)", nr, ntheta, ratio, (int)midpoint, nest, R0,
               split_mode, split);
}

static std::vector<double> random_partition(Rng& g, int n_intervals, double a, double b, double ratio)
{
    // n_intervals spacings with sizes in [1, ratio] (log-uniform), scaled to fill [a,b]
    std::vector<double> w(n_intervals);
    double sum = 0;
    for (int i = 0; i < n_intervals; i++) {
        w[i] = ratio <= 1.0 ? 1.0 : g.loguniform(1.0, ratio);
        sum += w[i];
    }
    std::vector<double> x(n_intervals + 1);
    x[0]       = a;
    double acc = 0;
    for (int i = 0; i < n_intervals; i++) {
        acc += w[i];
        x[i + 1] = a + (b - a) * (acc / sum);
    }
    x[n_intervals] = b;
    return x;
}
static std::vector<double> midpoint_refine(const std::vector<double>& x)
{
    std::vector<double> y(2 * x.size() - 1);
    for (size_t i = 0; i < y.size(); i++)
        y[i] = (i % 2 == 0) ? x[i / 2] : 0.5 * (x[(i - 1) / 2] + x[(i + 1) / 2]);
    return y;
}

void explicit_arrays(const GridSpec& s, std::vector<double>& radii, std::vector<double>& angles)
{
    Rng g(sim::mix(s.seed, 0x6121D));
    int nest = s.midpoint ? s.nest : 0;
    while (nest > 0 && (((s.nr - 1) % (1 << nest)) != 0 || ((s.ntheta / 2) % (1 << nest)) != 0))
        nest--;
    int nrb = (s.nr - 1) / (1 << nest);
    radii   = random_partition(g, nrb, s.R0, s.Rmax, s.ratio);
    for (int q = 0; q < nest; q++)
        radii = midpoint_refine(radii);
    int half  = s.ntheta / 2;
    int halfb = half / (1 << nest);
    std::vector<double> th = random_partition(g, halfb, 0.0, M_PI, s.uniform_theta ? 1.0 : s.ratio);
    for (int q = 0; q < nest; q++)
        th = midpoint_refine(th);
    angles.resize(s.ntheta + 1);
    for (int j = 0; j < half; j++) {
        angles[j]        = th[j];
        angles[j + half] = th[j] + M_PI;
    }
    angles[0]        = 0.0;
    angles[half]     = M_PI;
    angles[s.ntheta] = 2.0 * M_PI;
}

std::unique_ptr<PolarGrid> make_grid(const GridSpec& s)
{
    std::optional<double> split = std::nullopt;
    if (s.split_mode == 1)
        split = s.R0 + s.split * (s.Rmax - s.R0);
    if (s.kind == 0)
        return std::make_unique<PolarGrid>(s.R0, s.Rmax, s.nr_exp, s.ntheta_exp, s.refinement_radius, s.aniso,
                                           s.divideBy2, split);
    std::vector<double> radii, angles;
    explicit_arrays(s, radii, angles);
    return std::make_unique<PolarGrid>(radii, angles, split);
}

GridSpec gen_grid(Rng& g, int min_levels, int max_nodes, bool need_theta_div4, bool allow_parametric)
{
    GridSpec s;
    static const double R0s[] = {1e-8, 1e-5, 1e-3, 0.1, 0.5};
    s.R0                      = R0s[g.below(5)];
    s.Rmax                    = 1.3;
    int pw                    = 1 << (min_levels - 1);
    for (int attempt = 0; attempt < 200; attempt++) {
        if (allow_parametric && g.chance(0.3)) {
            s.kind       = 0;
            s.nr_exp     = g.range(2, 6);
            s.ntheta_exp = g.chance(0.3) ? -1 : g.range(2, 7);
            s.aniso      = 0; // the anisotropic division is exercised by the C18/C01 scenarios (it has its own findings)
            s.divideBy2  = g.chance(0.3) ? g.range(1, 2) : 0;
            s.refinement_radius = g.uniform(0.25, 0.95) * s.Rmax;
            s.split_mode        = 0;
            std::unique_ptr<PolarGrid> pg;
            try {
                pg = make_grid(s);
            }
            catch (...) {
                continue;
            }
            if (pg->numberOfNodes() > max_nodes)
                continue;
            if ((pg->nr() - 1) % pw != 0 || (pg->nr() - 1) / pw < 4)
                continue;
            if (pg->ntheta() % (pw * (need_theta_div4 ? 4 : 2)) != 0)
                continue;
            s.nr     = pg->nr();
            s.ntheta = pg->ntheta();
            return s;
        }
        s.kind        = 1;
        int coarse_nr = g.range(5, 12); // coarsest level has nr >= 5
        if (g.chance(0.3))
            coarse_nr = g.range(5, 40);
        s.nr          = (coarse_nr - 1) * pw + 1;
        int unit      = pw * (need_theta_div4 ? 4 : 2);
        int mult      = g.range(1, 12);
        if (g.chance(0.3))
            mult = g.range(1, 40);
        s.ntheta = unit * mult;
        if (s.ntheta < 4)
            s.ntheta = 4;
        if ((long)s.nr * s.ntheta > max_nodes)
            continue;
        s.seed     = g.next() >> 1;
        s.ratio    = g.chance(0.25) ? 1.0 : g.loguniform(1.0, 50.0);
        s.midpoint = g.chance(0.6);
        s.nest     = g.range(1, std::max(1, min_levels - 1));
        s.uniform_theta = g.chance(0.3);
        if (g.chance(0.4)) {
            s.split_mode = 1;
            s.split      = g.uniform(-0.1, 1.1);
        }
        else
            s.split_mode = 0;
        return s;
    }
    // fallback: smallest explicit grid
    s.kind   = 1;
    s.nr     = 4 * pw + 1;
    s.ntheta = pw * 4;
    s.seed   = 1;
    return s;
}

TestLevel make_level(int depth, std::unique_ptr<PolarGrid> grid, const Problem& p, bool cache_coeff, bool cache_geo,
                     ExtrapolationType ex, bool fmg)
{
    auto cache = std::make_unique<LevelCache>(*grid, *p.coeff, *p.geometry, cache_coeff, cache_geo);
    TestLevel t;
    t.level = std::make_unique<Level>(depth, std::move(grid), std::move(cache), ex, fmg);
    return t;
}
TestLevel make_coarse_level(int depth, const TestLevel& fine, ExtrapolationType ex, bool fmg)
{
    auto grid  = std::make_unique<PolarGrid>(coarseningGrid(fine.grid()));
    auto cache = std::make_unique<LevelCache>(*fine.level, *grid);
    TestLevel t;
    t.level = std::make_unique<Level>(depth, std::move(grid), std::move(cache), ex, fmg);
    return t;
}

/* ---------------------------------------------------------------- */
void fill_vector(Vector<double>& v, uint64_t seed, int kind, double scale, const PolarGrid* grid)
{
    Rng g(sim::mix(seed, 0x7EC70));
    const int n = v.size();
    switch (kind) {
    case VK_SMOOTH:
        if (grid) {
            double a = g.uniform(0.5, 3), b = g.uniform(0.5, 3), c = g.uniform(-1, 1);
            int m = g.range(1, 3);
            for (int i = 0; i < grid->nr(); i++)
                for (int j = 0; j < grid->ntheta(); j++)
                    v[grid->index(i, j)] =
                        scale * (std::sin(a * grid->radius(i)) * std::cos(m * grid->theta(j)) + c + b * grid->radius(i));
            break;
        }
        /* fallthrough */
    case VK_UNIFORM:
        for (int i = 0; i < n; i++)
            v[i] = scale * g.uniform(-1, 1);
        break;
    case VK_WIDE:
        for (int i = 0; i < n; i++)
            v[i] = scale * (g.chance(0.5) ? 1 : -1) * std::pow(10.0, g.uniform(-8, 8));
        break;
    case VK_SPARSE:
        for (int i = 0; i < n; i++)
            v[i] = g.chance(0.05) ? scale * g.uniform(-1, 1) : 0.0;
        break;
    default:
        for (int i = 0; i < n; i++)
            v[i] = scale * g.normal();
    }
}
Vector<double> rand_vector(int n, uint64_t seed, int kind, double scale, const PolarGrid* grid)
{
    Vector<double> v(n);
    fill_vector(v, seed, kind, scale, grid);
    return v;
}
uint64_t hash_bytes(const void* p, size_t n) { return sim::fnv1a(sim::FNV_INIT, p, n); }
uint64_t hash_vec(const Vector<double>& v) { return hash_bytes(v.begin(), sizeof(double) * (size_t)v.size()); }
bool bit_equal(const Vector<double>& a, const Vector<double>& b, int* first_diff)
{
    if (a.size() != b.size()) {
        if (first_diff)
            *first_diff = -1;
        return false;
    }
    for (int i = 0; i < a.size(); i++)
        if (std::memcmp(&a[i], &b[i], sizeof(double)) != 0) {
            if (first_diff)
                *first_diff = i;
            return false;
        }
    return true;
}
bool all_finite(const Vector<double>& v)
{
    for (int i = 0; i < v.size(); i++)
        if (!std::isfinite(v[i]))
            return false;
    return true;
}
double max_abs(const Vector<double>& v)
{
    double m = 0;
    for (int i = 0; i < v.size(); i++)
        m = std::max(m, std::fabs(v[i]));
    return m;
}
std::vector<double> to_std(const Vector<double>& v) { return std::vector<double>(v.begin(), v.end()); }
Vector<double> from_std(const std::vector<double>& v)
{
    Vector<double> r((int)v.size());
    for (size_t i = 0; i < v.size(); i++)
        r[(int)i] = v[i];
    return r;
}

void fill_junk(Vector<double>& v, uint64_t seed, int kind)
{
    Rng g(sim::mix(seed, 0x10A4C));
    for (int i = 0; i < v.size(); i++) {
        int k = kind == 3 ? (int)g.below(3) : kind;
        if (k == 0)
            v[i] = (g.chance(0.5) ? 1 : -1) * g.loguniform(1e3, 1e12);
        else if (k == 1)
            v[i] = std::nan("");
        else
            v[i] = g.chance(0.5) ? INFINITY : -INFINITY;
    }
}

CoutCapture::CoutCapture()
{
    buf = new std::ostringstream();
    old = std::cout.rdbuf(buf->rdbuf());
}
CoutCapture::~CoutCapture()
{
    std::cout.rdbuf(old);
    delete buf;
}
std::string CoutCapture::str() const { return buf->str(); }

} // namespace hs
