// Shared harness infrastructure: scenario registry, result collection, problem catalogue, grid generators,
// vector helpers, the guarded accessor to GMGPolar's private members.
#pragma once
#include <cstdint>
#include <cstring>
#include <cmath>
#include <memory>
#include <string>
#include <vector>
#include <map>
#include <functional>

#include "../sim/sim.h"
#include "../sim/simenv.h"
#include "../sim/prng.h"
#include "../sim/json.h"
#include "../model/refop.h"

#include "GMGPolar/gmgpolar.h"

namespace hs {

using js::Value;
using sim::Rng;

/* ---------------------------------------------------------------- */
/* results                                                          */
/* ---------------------------------------------------------------- */
struct Violation {
    std::string cls, detail;
};
struct Result {
    std::vector<Violation> violations;
    std::map<std::string, long> probes; // reach probes and counters
    std::map<std::string, double> maxima; // e.g. worst relative error seen
    bool nontrivial = false;
    std::string signature; // what makes this case distinct
    uint64_t fingerprint = 0;
    uint64_t sim_time_ns = 0;
    sim::Stats sim; // accumulated over all simulated executions of the run
    std::map<void*, sim::RegionStat> by_fn;
    long executions = 0;
    std::string race_tag; // qualifies race classes with the context they need (e.g. "[all_radial_split]")
    void fail(const std::string& cls, const std::string& detail)
    {
        for (auto& v : violations)
            if (v.cls == cls)
                return;
        violations.push_back({cls, detail});
    }
    void probe(const std::string& k, long n = 1) { probes[k] += n; }
    void maxim(const std::string& k, double v)
    {
        auto it = maxima.find(k);
        if (it == maxima.end() || v > it->second)
            maxima[k] = v;
    }
    void absorb_sim(); // add the current sim::stats() (after end_run) and race reports to this result
};

struct Scenario {
    const char* name;
    const char* property;
    const char* flavours; // which builds make sense: e.g. "fast,trace"
    Value (*gen)(uint64_t seed, const std::string& tier);
    void (*run)(const Value& plan, Result& r);
};
void register_scenario(const Scenario& s);
const std::vector<Scenario>& scenarios();
struct Registrar {
    explicit Registrar(const Scenario& s) { register_scenario(s); }
};

const char* flavour(); // "fast" / "trace" / "asan"
inline bool is_trace() { return std::strcmp(flavour(), "trace") == 0; }
inline bool is_asan() { return std::strcmp(flavour(), "asan") == 0; }

/* ---------------------------------------------------------------- */
/* simulator configuration in plans                                 */
/* ---------------------------------------------------------------- */
Value gen_sim(Rng& g, bool allow_shortfall = true); // seeded swarm choice of policy etc.
Value canonical_sim(); // round-robin, no faults
sim::Config sim_from(const Value& v);
// RAII: begin_run / end_run + absorb stats
struct SimRun {
    Result& r;
    SimRun(const Value& simcfg, Result& res);
    SimRun(const sim::Config& c, Result& res);
    ~SimRun();
    void finish();
    bool done = false;
};

/* ---------------------------------------------------------------- */
/* problems                                                         */
/* ---------------------------------------------------------------- */
struct ProblemSpec {
    int geometry = 0; // 0 circular 1 shafranov 2 czarny 3 culham
    int problem  = 0; // 0 CartesianR2 1 CartesianR6 2 PolarR6 3 Refined
    int coeff    = 0; // 0 Poisson 1 Sonnendrucker 2 SonnendruckerGyro 3 Zoni 4 ZoniGyro 5 ZoniShifted 6 ZoniShiftedGyro
    double Rmax = 1.3, p1 = 0.3, p2 = 0.2; // kappa/delta or eps/e
    double alpha_jump = 0.5;
    int scale_exp = 0; // alpha and beta multiplied by 2^scale_exp (operator-level scenarios only: physical units differ)
    Value to_json() const;
    static ProblemSpec from_json(const Value& v);
    std::string str() const;
    int alpha_enum() const { return coeff == 0 ? 0 : (coeff + 1) / 2; }
    int beta_enum() const { return (coeff == 2 || coeff == 4 || coeff == 6) ? 1 : 0; }
};
struct Problem {
    std::unique_ptr<DomainGeometry> geometry;
    std::unique_ptr<DensityProfileCoefficients> coeff;
    std::unique_ptr<BoundaryConditions> bc;
    std::unique_ptr<SourceTerm> source;
    std::unique_ptr<ExactSolution> exact;
};
Problem make_problem(const ProblemSpec& s);
ProblemSpec gen_problem(Rng& g, bool smooth_only = false, bool allow_culham = false);
ProblemSpec gen_problem_raw(Rng& g, bool smooth_only, bool allow_culham);
bool geometry_valid(const ProblemSpec& s);

/* ---------------------------------------------------------------- */
/* grids                                                            */
/* ---------------------------------------------------------------- */
struct GridSpec {
    // kind 0: parametric constructor; kind 1: explicit radii/angles generated from sub-seed
    int kind = 1;
    // parametric
    double R0 = 1e-5, Rmax = 1.3;
    int nr_exp = 3, ntheta_exp = 3, aniso = 0, divideBy2 = 0;
    double refinement_radius = 0.5;
    // explicit
    int nr = 9, ntheta = 8; // nr odd multiples so that coarsening works: nr = 2^k * m + 1
    uint64_t seed = 1;
    double ratio  = 1.0; // max spacing ratio (1 = uniform)
    bool midpoint = true; // fine nodes are midpoints of coarse nodes (nested refinement of a coarse random grid)
    int nest      = 1; // number of midpoint-nesting levels (>=0)
    bool uniform_theta = false;
    // splitting
    int split_mode = 0; // 0 automatic, 1 explicit radius
    double split   = 0.0; // fraction in [-0.1, 1.1] of [R0,Rmax]
    Value to_json() const;
    static GridSpec from_json(const Value& v);
    std::string str() const;
};
std::unique_ptr<PolarGrid> make_grid(const GridSpec& s);
void explicit_arrays(const GridSpec& s, std::vector<double>& radii, std::vector<double>& angles);
// explicit grid with nr = base_nr grown by `levels` refinements; ntheta divisible by 2^levels * 4 if requested
GridSpec gen_grid(Rng& g, int min_levels, int max_nodes, bool need_theta_div4 = true, bool allow_parametric = true);

/* harness-built level (as the unit tests do) */
struct TestLevel {
    std::unique_ptr<Level> level;
    const PolarGrid& grid() const { return level->grid(); }
    const LevelCache& cache() const { return level->levelCache(); }
};
TestLevel make_level(int depth, std::unique_ptr<PolarGrid> grid, const Problem& p, bool cache_coeff, bool cache_geo,
                     ExtrapolationType ex = ExtrapolationType::NONE, bool fmg = true);
TestLevel make_coarse_level(int depth, const TestLevel& fine, ExtrapolationType ex = ExtrapolationType::NONE,
                            bool fmg = true);

/* ---------------------------------------------------------------- */
/* vectors                                                          */
/* ---------------------------------------------------------------- */
enum VecKind
{
    VK_UNIFORM = 0, // uniform in [-1,1] * scale
    VK_SMOOTH  = 1, // smooth function of (r,theta)
    VK_WIDE    = 2, // huge dynamic range: sign * 10^uniform(-8,8)
    VK_SPARSE  = 3, // mostly zeros
    VK_NORMAL  = 4
};
void fill_vector(Vector<double>& v, uint64_t seed, int kind, double scale = 1.0, const PolarGrid* grid = nullptr);
Vector<double> rand_vector(int n, uint64_t seed, int kind = VK_UNIFORM, double scale = 1.0,
                           const PolarGrid* grid = nullptr);
uint64_t hash_vec(const Vector<double>& v);
uint64_t hash_bytes(const void* p, size_t n);
bool bit_equal(const Vector<double>& a, const Vector<double>& b, int* first_diff = nullptr);
bool all_finite(const Vector<double>& v);
double max_abs(const Vector<double>& v);
std::vector<double> to_std(const Vector<double>& v);
Vector<double> from_std(const std::vector<double>& v);
std::string fmt(const char* f, ...);
const double EPS = 2.220446049250313e-16;

/* junk */
void fill_junk(Vector<double>& v, uint64_t seed, int kind); // 0 large finite, 1 NaN, 2 +-Inf, 3 mixed

/* stdout capture (the solver prints residuals to std::cout) */
struct CoutCapture {
    std::streambuf* old;
    std::ostringstream* buf;
    CoutCapture();
    ~CoutCapture();
    std::string str() const;
};

} // namespace hs

/* The friend declared (under GMGPOLAR_VERIF) in include/GMGPolar/gmgpolar.h */
struct GMGPolarVerifAccess {
    static std::vector<Level>& levels(GMGPolar& s) { return s.levels_; }
    static int number_of_levels(const GMGPolar& s) { return s.number_of_levels_; }
    static bool& full_grid_smoothing(GMGPolar& s) { return s.full_grid_smoothing_; }
    static std::vector<double>& residual_norms(GMGPolar& s) { return s.residual_norms_; }
    static std::vector<std::pair<double, double>>& exact_errors(GMGPolar& s) { return s.exact_errors_; }
    static std::vector<int>& threads_per_level(GMGPolar& s) { return s.threads_per_level_; }
    static Interpolation& interpolation(GMGPolar& s) { return *s.interpolation_; }
    static double& mean_rho(GMGPolar& s) { return s.mean_residual_reduction_factor_; }
    static int& iterations(GMGPolar& s) { return s.number_of_iterations_; }
    // cycle: 0 V, 1 W, 2 F ; extrapolated or not
    static void cycle(GMGPolar& s, int type, bool extrapolated, int depth, Vector<double>& sol, Vector<double>& rhs,
                      Vector<double>& res)
    {
        if (!extrapolated) {
            if (type == 0)
                s.multigrid_V_Cycle(depth, sol, rhs, res);
            else if (type == 1)
                s.multigrid_W_Cycle(depth, sol, rhs, res);
            else
                s.multigrid_F_Cycle(depth, sol, rhs, res);
        }
        else {
            if (type == 0)
                s.implicitlyExtrapolatedMultigrid_V_Cycle(depth, sol, rhs, res);
            else if (type == 1)
                s.implicitlyExtrapolatedMultigrid_W_Cycle(depth, sol, rhs, res);
            else
                s.implicitlyExtrapolatedMultigrid_F_Cycle(depth, sol, rhs, res);
        }
    }
    static void initializeSolution(GMGPolar& s) { s.initializeSolution(); }
    static void extrapolatedResidual(GMGPolar& s, int lvl, Vector<double>& res, const Vector<double>& res_next)
    {
        s.extrapolatedResidual(lvl, res, res_next);
    }
    static std::pair<double, double> computeExactError(GMGPolar& s, Level& level, const Vector<double>& sol,
                                                       Vector<double>& err)
    {
        return s.computeExactError(level, sol, err);
    }
};
