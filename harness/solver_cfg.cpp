#include "solver_cfg.h"
#include <algorithm>

namespace hs {

Value SolverOpts::to_json() const
{
    Value v             = Value::object();
    v["prob"]           = prob.to_json();
    v["R0"]             = R0;
    v["nr_exp"]         = nr_exp;
    v["ntheta_exp"]     = ntheta_exp;
    v["aniso"]          = aniso;
    v["divideBy2"]      = divideBy2;
    v["dirbc"]          = dirbc;
    v["fmg"]            = fmg;
    v["fmg_iterations"] = fmg_iterations;
    v["fmg_cycle"]      = fmg_cycle;
    v["extrapolation"]  = extrapolation;
    v["max_levels"]     = max_levels;
    v["pre"]            = pre;
    v["post"]           = post;
    v["cycle"]          = cycle;
    v["max_iterations"] = max_iterations;
    v["norm_type"]      = norm_type;
    v["abs_tol"]        = abs_tol;
    v["rel_tol"]        = rel_tol;
    v["threads"]        = threads;
    v["reduction"]      = reduction;
    v["stencil"]        = stencil;
    v["cache_coeff"]    = cache_coeff;
    v["cache_geo"]      = cache_geo;
    v["with_exact"]     = with_exact;
    v["verbose"]        = verbose;
    return v;
}
SolverOpts SolverOpts::from_json(const Value& v)
{
    SolverOpts o;
    o.prob           = ProblemSpec::from_json(v.at("prob"));
    o.R0             = v.at("R0").as_double(1e-5);
    o.nr_exp         = (int)v.at("nr_exp").as_int(4);
    o.ntheta_exp     = (int)v.at("ntheta_exp").as_int(-1);
    o.aniso          = (int)v.at("aniso").as_int(0);
    o.divideBy2      = (int)v.at("divideBy2").as_int(0);
    o.dirbc          = v.at("dirbc").as_bool(false);
    o.fmg            = v.at("fmg").as_bool(false);
    o.fmg_iterations = (int)v.at("fmg_iterations").as_int(2);
    o.fmg_cycle      = (int)v.at("fmg_cycle").as_int(0);
    o.extrapolation  = (int)v.at("extrapolation").as_int(0);
    o.max_levels     = (int)v.at("max_levels").as_int(-1);
    o.pre            = (int)v.at("pre").as_int(1);
    o.post           = (int)v.at("post").as_int(1);
    o.cycle          = (int)v.at("cycle").as_int(0);
    o.max_iterations = (int)v.at("max_iterations").as_int(150);
    o.norm_type      = (int)v.at("norm_type").as_int(0);
    o.abs_tol        = v.at("abs_tol").as_double(1e-8);
    o.rel_tol        = v.at("rel_tol").as_double(1e-8);
    o.threads        = (int)v.at("threads").as_int(1);
    o.reduction      = v.at("reduction").as_double(1.0);
    o.stencil        = (int)v.at("stencil").as_int(1);
    o.cache_coeff    = v.at("cache_coeff").as_bool(true);
    o.cache_geo      = v.at("cache_geo").as_bool(true);
    o.with_exact     = v.at("with_exact").as_bool(true);
    o.verbose        = (int)v.at("verbose").as_int(1);
    return o;
}
std::string SolverOpts::str() const
{
    return fmt("%s nr_exp=%d nt_exp=%d aniso=%d div=%d R0=%g dirbc=%d %s ex=%d cyc=%d fmg=%d/%d/%d L=%d sm=%d+%d norm=%d "
               "tol=%g/%g T=%d red=%g cache=%d%d",
               prob.str().c_str(), nr_exp, ntheta_exp, aniso, divideBy2, R0, (int)dirbc, stencil ? "give" : "take",
               extrapolation, cycle, (int)fmg, fmg_iterations, fmg_cycle, max_levels, pre, post, norm_type, abs_tol,
               rel_tol, threads, reduction, (int)cache_coeff, (int)cache_geo);
}
long SolverOpts::nodes() const
{
    long nr = (1L << nr_exp) + 1;
    if (aniso > 0)
        nr = aniso >= 3 ? nr * 13 / 4 : nr * 2; // upper estimate of what the anisotropic refinement adds (measured: 2x, 3.2x)
    long nt;
    if (ntheta_exp < 0) {
        long p = 1;
        while (p < nr)
            p <<= 1;
        nt = p;
    }
    else
        nt = 1L << ntheta_exp;
    long f = 1L << divideBy2;
    return ((nr - 1) * f + 1) * (nt * f);
}

void bound_cost(SolverOpts& o, long max_nodes, long max_coarsest)
{
    // the sparse LU of the coarsest level is the one super-linear cost of a run: keep the (generously estimated) grid
    // and the coarsest level small enough that a plan is seconds, not hours, of simulated execution
    while (o.nodes() > max_nodes) {
        if (o.divideBy2 > 0)
            o.divideBy2--;
        else if (o.aniso > 0)
            o.aniso = 0;
        else if (o.ntheta_exp > 3)
            o.ntheta_exp--;
        else if (o.nr_exp > 2)
            o.nr_exp--;
        else
            break;
    }
    if (o.max_levels >= 1) {
        while (o.max_levels < 8 && (o.nodes() >> (2 * (o.max_levels - 1))) > max_coarsest)
            o.max_levels++;
    }
}

void apply_opts(GMGPolar& s, const SolverOpts& o)
{
    s.verbose(o.verbose);
    s.paraview(false);
    s.maxOpenMPThreads(o.threads);
    s.threadReductionFactor(o.reduction);
    s.stencilDistributionMethod(o.stencil ? StencilDistributionMethod::CPU_GIVE : StencilDistributionMethod::CPU_TAKE);
    s.cacheDensityProfileCoefficients(o.cache_coeff);
    s.cacheDomainGeometry(o.cache_geo);
    s.R0(o.R0);
    s.Rmax(o.prob.Rmax);
    s.nr_exp(o.nr_exp);
    s.ntheta_exp(o.ntheta_exp);
    s.anisotropic_factor(o.aniso);
    s.divideBy2(o.divideBy2);
    s.write_grid_file(false);
    s.load_grid_file(false);
    s.DirBC_Interior(o.dirbc);
    s.FMG(o.fmg);
    s.FMG_iterations(o.fmg_iterations);
    s.FMG_cycle((MultigridCycleType)o.fmg_cycle);
    s.extrapolation((ExtrapolationType)o.extrapolation);
    s.maxLevels(o.max_levels);
    s.preSmoothingSteps(o.pre);
    s.postSmoothingSteps(o.post);
    s.multigridCycle((MultigridCycleType)o.cycle);
    s.maxIterations(o.max_iterations);
    s.residualNormType((ResidualNormType)o.norm_type);
    s.absoluteTolerance(o.abs_tol);
    s.relativeTolerance(o.rel_tol);
}

std::unique_ptr<GMGPolar> new_solver(const SolverOpts& o, Problem& keep)
{
    Problem p = make_problem(o.prob);
    keep      = make_problem(o.prob); // fresh, independent objects for the harness's own use
    auto s    = std::make_unique<GMGPolar>(std::move(p.geometry), std::move(p.coeff), std::move(p.bc),
                                        std::move(p.source));
    if (o.with_exact)
        s->setSolution(std::move(p.exact));
    apply_opts(*s, o);
    return s;
}

SolverOpts gen_opts(Rng& g, long max_nodes, bool c01_set)
{
    SolverOpts o;
    for (int attempt = 0; attempt < 100; attempt++) {
        o.prob = gen_problem(g, false, false);
        static const double R0s[] = {1e-8, 1e-5, 1e-5, 1e-3, 0.1, 0.1, 0.3, 0.5};
        o.R0                      = R0s[g.below(8)];
        o.nr_exp                  = g.range(c01_set ? 4 : 2, 6);
        // angular resolution comparable to the radial one (what the automatic choice -1 produces); now and then
        // up to 8x finer
        o.ntheta_exp = g.chance(0.4) ? -1 : std::min(8, std::max(c01_set ? 5 : 3, o.nr_exp + g.range(0, 2) + (g.chance(0.1) ? 1 : 0)));
        o.aniso                   = (g.chance(0.35) && o.R0 < 0.3) ? g.range(1, 3) : 0; // (the refined window does not fit a thin annulus)
        o.divideBy2               = g.chance(0.3) ? g.range(1, 2) : 0;
        if (o.nodes() > max_nodes)
            continue;
        break;
    }
    if (o.nodes() > max_nodes) {
        o.nr_exp     = 4;
        o.ntheta_exp = 5;
        o.aniso      = 0;
        o.divideBy2  = 0;
    }
    o.dirbc         = g.chance(0.5) || o.R0 >= 0.3; // annular domains (sizeable hole) with the Dirichlet treatment
    o.stencil       = g.chance(0.5) ? 1 : 0;
    o.cache_coeff   = o.stencil == 0 ? true : g.chance(0.6);
    o.cache_geo     = o.stencil == 0 ? true : g.chance(0.6);
    static const int ex_c01[] = {0, 1, 3, 0, 1, 3, 2};
    o.extrapolation           = c01_set ? ex_c01[g.below(7)] : g.range(0, 3);
    o.cycle                   = g.range(0, 2);
    o.fmg                     = g.chance(0.45);
    o.fmg_iterations          = g.range(0, 3);
    o.fmg_cycle               = g.range(0, 2);
    o.max_levels              = g.chance(0.5) ? -1 : g.range(2, 6);
    o.pre                     = g.range(c01_set ? 1 : 0, 3);
    o.post                    = g.range(c01_set ? 1 : 0, 3);
    o.norm_type               = g.range(0, 2);
    static const double tols[] = {1e-6, 1e-8, 1e-8, 1e-9};
    o.abs_tol                  = g.chance(0.2) ? -1.0 : tols[g.below(4)];
    o.rel_tol                  = g.chance(0.2) ? -1.0 : tols[g.below(4)];
    if (c01_set && o.abs_tol < 0 && o.rel_tol < 0)
        o.rel_tol = 1e-8;
    o.max_iterations = 150;
    o.threads        = g.chance(0.25) ? 1 : g.range(2, 16);
    static const double reds[] = {1.0, 1.0, 0.5, 1.0 / 3.0, 0.75};
    o.reduction                = reds[g.below(5)];
    o.with_exact               = g.chance(0.7);
    o.verbose                  = 1;
    bound_cost(o, max_nodes, 2600);
    return o;
}

static std::vector<double> coarse_arrays(const std::vector<double>& v)
{
    std::vector<double> c;
    for (size_t i = 0; i < v.size(); i += 2)
        c.push_back(v[i]);
    return c;
}

IndepResidual independent_residual(const PolarGrid& grid, const SolverOpts& o, const Vector<double>& u,
                                   const Vector<double>* lib_rhs)
{
    IndepResidual out;
    Problem p = make_problem(o.prob);
    model::RefOperator A;
    A.build(grid, *p.geometry, *p.coeff, o.dirbc);
    std::vector<double> um, f, Au, absAu, r(A.n), b(A.n);
    A.to_model(u, um);
    A.rhs(*p.source, *p.bc, f);
    A.apply(um, Au);
    A.apply_abs(um, absAu);
    const double c = 8.0, m = 12.0;
    for (int i = 0; i < A.n; i++) {
        r[i] = f[i] - Au[i];
        b[i] = c * m * EPS * (absAu[i] + std::fabs(f[i]));
    }
    if (lib_rhs) {
        double worst = 0;
        for (int i = 0; i < A.n; i++) {
            double d   = std::fabs(f[i] - (*lib_rhs)[A.to_grid[i]]);
            double tol = 32.0 * EPS * std::fabs(f[i]) + 1e-300;
            worst      = std::max(worst, d / tol);
        }
        out.rhs_defect = worst;
    }
    if (o.extrapolation != 0) {
        // coarse grid: every second node, built from the arrays (not through the library's coarsening function)
        std::vector<double> cr = coarse_arrays(grid.radii());
        std::vector<double> ct = coarse_arrays(grid.angles());
        PolarGrid cg(cr, ct);
        model::RefOperator Ac;
        Ac.build(cg, *p.geometry, *p.coeff, o.dirbc);
        std::vector<double> uc(Ac.n), fc, Acu, absAcu;
        for (int i = 0; i < Ac.nr; i++)
            for (int j = 0; j < Ac.ntheta; j++)
                uc[Ac.id(i, j)] = um[A.id(2 * i, 2 * j)];
        Ac.rhs(*p.source, *p.bc, fc);
        Ac.apply(uc, Acu);
        Ac.apply_abs(uc, absAcu);
        for (int i = 0; i < A.nr; i++)
            for (int j = 0; j < A.ntheta; j++) {
                int q = A.id(i, j);
                if ((i & 1) || (j & 1)) {
                    r[q] *= 4.0 / 3.0;
                    b[q] *= 4.0 / 3.0;
                }
                else {
                    int qc    = Ac.id(i / 2, j / 2);
                    double rc = fc[qc] - Acu[qc];
                    double bc = c * m * EPS * (absAcu[qc] + std::fabs(fc[qc]));
                    r[q]      = (4.0 * r[q] - rc) / 3.0;
                    b[q]      = (4.0 * b[q] + bc) / 3.0 + 4 * EPS * std::fabs(r[q]);
                }
            }
    }
    long double s2 = 0, b2 = 0;
    double mx = 0, bmx = 0;
    for (int i = 0; i < A.n; i++) {
        s2 += (long double)r[i] * r[i];
        b2 += (long double)b[i] * b[i];
        mx  = std::max(mx, std::fabs(r[i]));
        bmx = std::max(bmx, b[i]);
    }
    switch (o.norm_type) {
    case 0:
        out.norm  = std::sqrt((double)s2);
        out.bound = std::sqrt((double)b2);
        break;
    case 1:
        out.norm  = std::sqrt((double)s2) / std::sqrt((double)A.n);
        out.bound = std::sqrt((double)b2) / std::sqrt((double)A.n);
        break;
    default:
        out.norm  = mx;
        out.bound = bmx;
    }
    return out;
}

std::vector<double> parse_residual_norms(const std::string& out)
{
    std::vector<double> v;
    size_t pos = 0;
    const std::string key = ", ||r_k||: ";
    while ((pos = out.find(key, pos)) != std::string::npos) {
        pos += key.size();
        v.push_back(strtod(out.c_str() + pos, nullptr));
    }
    return v;
}

} // namespace hs
