// gmgsim: the simulation harness.  One binary per build flavour (fast / trace / asan).
//   gmgsim list
//   gmgsim gen  <scenario> <tier> <seed>
//   gmgsim run  <scenario> <tier> <seed0> <count> <stride> [budget_seconds]
//   gmgsim exec <plan.json>
// Every run prints "@@BEGIN {...}" before and "@@RESULT {...}" after, flushed, so that a worker killed by a sanitizer,
// an assertion, a deadlock verdict or a signal identifies the plan it was executing.
#include "common.h"
#include <cstdio>
#include <cstdlib>
#include <cstring>
#include <fstream>
#include <iostream>
#include <sstream>
#include <exception>
#include <sys/personality.h>
#include <unistd.h>
#include <malloc.h>
#include <csignal>
#include <sched.h>

using namespace hs;

static const Scenario* find_scenario(const std::string& name)
{
    for (const Scenario& s : scenarios())
        if (name == s.name)
            return &s;
    return nullptr;
}

static Value result_json(const Value& plan, const Result& r, double wall)
{
    Value o       = Value::object();
    o["seed"]     = plan.at("seed");
    o["scenario"] = plan.at("scenario");
    o["verdict"]  = r.violations.empty() ? "ok" : "violation";
    Value vs      = Value::array();
    for (auto& v : r.violations) {
        Value e     = Value::object();
        e["class"]  = v.cls;
        e["detail"] = v.detail;
        vs.push(e);
    }
    o["violations"]  = vs;
    o["nontrivial"]  = r.nontrivial;
    o["signature"]   = r.signature;
    o["fingerprint"] = fmt("%016llx", (unsigned long long)r.fingerprint);
    o["sched_fp"]    = fmt("%016llx", (unsigned long long)r.sim.sched_fp);
    o["wall_s"]      = wall;
    Value pr         = Value::object();
    for (auto& kv : r.probes)
        pr[kv.first] = (long long)kv.second;
    o["probes"] = pr;
    Value mx    = Value::object();
    for (auto& kv : r.maxima)
        mx[kv.first] = kv.second;
    o["maxima"] = mx;
    Value s     = Value::object();
    s["executions"]   = (long long)r.executions;
    s["regions"]      = (long long)r.sim.regions;
    s["par_regions"]  = (long long)r.sim.par_regions;
    s["switches"]     = (long long)r.sim.switches;
    s["sched_points"] = (long long)r.sim.sched_points;
    s["barriers"]     = (long long)r.sim.barriers;
    s["accesses"]     = (long long)r.sim.accesses;
    s["checked"]      = (long long)r.sim.checked;
    s["shortfalls"]   = (long long)r.sim.shortfalls;
    s["atomics"]      = (long long)r.sim.atomics;
    s["nested"]       = (long long)r.sim.nested;
    s["preemptions"]  = (long long)r.sim.preemptions;
    s["clock_faults"] = (long long)r.sim.clock_faults;
    s["max_team"]     = r.sim.max_team;
    s["sim_time_ns"]  = (long long)r.sim_time_ns;
    Value th          = Value::array();
    for (int i = 0; i < 9; i++)
        th.push((long long)r.sim.team_hist[i]);
    s["team_hist"] = th;
    Value fn       = Value::object();
    for (auto& kv : r.by_fn) {
        Value e = Value::array();
        e.push((long long)kv.second.count);
        e.push((long long)kv.second.parallel);
        e.push(kv.second.max_team);
        e.push(kv.second.max_req);
        e.push((long long)kv.second.shortfalls);
        fn[fmt("%p", kv.first)] = e;
    }
    s["by_fn"] = fn;
    o["sim"]   = s;
    o["plan"]  = plan;
    return o;
}

static void run_one(const Scenario& sc, const Value& plan)
{
    {
        Value b       = Value::object();
        b["seed"]     = plan.at("seed");
        b["scenario"] = plan.at("scenario");
        b["plan"]     = plan;
        printf("@@BEGIN %s\n", b.dump().c_str());
        fflush(stdout);
    }
    Result r;
    double t0 = sim::real_seconds();
    try {
        sc.run(plan, r);
    }
    catch (const std::exception& e) {
        sim::end_run();
        r.fail("harness_exception", std::string("uncaught std::exception in scenario: ") + e.what());
    }
    catch (...) {
        sim::end_run();
        r.fail("harness_exception", "uncaught non-std exception in scenario");
    }
    double wall = sim::real_seconds() - t0;
    Value o     = result_json(plan, r, wall);
    printf("@@RESULT %s\n", o.dump().c_str());
    fflush(stdout);
}

static void on_terminate()
{
    const char* what = "terminate called";
    std::string w;
    if (auto ep = std::current_exception()) {
        try {
            std::rethrow_exception(ep);
        }
        catch (const std::exception& e) {
            w    = std::string("terminate: uncaught exception: ") + e.what();
            what = w.c_str();
        }
        catch (...) {
            what = "terminate: uncaught non-std exception";
        }
    }
    sim::fatal_verdict("terminate", what, 88);
}

int main(int argc, char** argv)
{
    // Disable ASLR so that even raw addresses agree between replays (DESIGN 2.4).
    if (!getenv("GMGSIM_NOREEXEC")) {
        int pers = personality(0xffffffff);
        if (pers != -1 && !(pers & ADDR_NO_RANDOMIZE)) {
            if (personality(pers | ADDR_NO_RANDOMIZE) != -1) {
                setenv("GMGSIM_NOREEXEC", "1", 1);
                execv("/proc/self/exe", argv);
            }
        }
    }
    mallopt(M_ARENA_MAX, 1);
    {
        // The simulation is serial (one baton): keep all threads of this process on ONE core, so that a hand-over is a
        // same-core context switch (~5x cheaper than a cross-core futex wake-up).  The driver spreads workers over cores.
        int cpu = getenv("GMGSIM_CPU") ? atoi(getenv("GMGSIM_CPU")) : sched_getcpu();
        long ncpu = sysconf(_SC_NPROCESSORS_ONLN);
        if (cpu >= 0 && ncpu > 0 && !getenv("GMGSIM_NOPIN")) {
            cpu_set_t set;
            CPU_ZERO(&set);
            CPU_SET(cpu % (int)ncpu, &set);
            sched_setaffinity(0, sizeof set, &set);
        }
    }
    std::set_terminate(on_terminate);
    setvbuf(stdout, nullptr, _IOLBF, 1 << 16);
    if (argc < 2) {
        fprintf(stderr, "usage: gmgsim list|gen|run|exec ...\n");
        return 2;
    }
    std::string cmd = argv[1];
    if (cmd == "list") {
        for (const Scenario& s : scenarios())
            printf("%s %s %s\n", s.name, s.property, s.flavours);
        return 0;
    }
    if (cmd == "flavour") {
        printf("%s\n", flavour());
        return 0;
    }
    if (cmd == "gen" && argc >= 5) {
        const Scenario* sc = find_scenario(argv[2]);
        if (!sc)
            return 2;
        Value plan       = sc->gen(strtoull(argv[4], nullptr, 0), argv[3]);
        plan["scenario"] = sc->name;
        plan["seed"]     = (long long)strtoull(argv[4], nullptr, 0);
        plan["tier"]     = argv[3];
        printf("%s\n", plan.dump().c_str());
        return 0;
    }
    if (cmd == "run" && argc >= 7) {
        const Scenario* sc = find_scenario(argv[2]);
        if (!sc) {
            fprintf(stderr, "unknown scenario %s\n", argv[2]);
            return 2;
        }
        std::string tier = argv[3];
        uint64_t seed0   = strtoull(argv[4], nullptr, 0);
        long count       = atol(argv[5]);
        long stride      = atol(argv[6]);
        double budget    = argc >= 8 ? atof(argv[7]) : 1e9;
        double t0        = sim::real_seconds();
        for (long k = 0; k < count; k++) {
            if (sim::real_seconds() - t0 > budget)
                break;
            uint64_t seed    = seed0 + (uint64_t)k * (uint64_t)stride;
            Value plan       = sc->gen(seed, tier);
            plan["scenario"] = sc->name;
            plan["seed"]     = (long long)seed;
            plan["tier"]     = tier;
            run_one(*sc, plan);
        }
        printf("@@DONE\n");
        fflush(stdout);
        return 0;
    }
    if (cmd == "exec" && argc >= 3) {
        std::ifstream in(argv[2]);
        std::stringstream ss;
        ss << in.rdbuf();
        Value plan;
        try {
            plan = js::parse(ss.str());
        }
        catch (const std::exception& e) {
            fprintf(stderr, "cannot parse plan: %s\n", e.what());
            return 2;
        }
        if (plan.has("plan") && !plan.has("scenario"))
            plan = plan.at("plan"); // a replay file wraps the plan
        const Scenario* sc = find_scenario(plan.at("scenario").as_str());
        if (!sc) {
            fprintf(stderr, "unknown scenario in plan\n");
            return 2;
        }
        run_one(*sc, plan);
        printf("@@DONE\n");
        return 0;
    }
    fprintf(stderr, "bad command\n");
    return 2;
}
