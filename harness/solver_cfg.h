// Option sets for whole-solver scenarios: generation, JSON round trip, application through the public setters,
// and the independent residual recomputation used by C01 / C13 / C20.
#pragma once
#include "common.h"

namespace hs {

struct SolverOpts {
    ProblemSpec prob;
    double R0 = 1e-5;
    int nr_exp = 4, ntheta_exp = -1, aniso = 0, divideBy2 = 0;
    bool dirbc = false;
    bool fmg = false;
    int fmg_iterations = 2, fmg_cycle = 0;
    int extrapolation = 0;
    int max_levels = -1;
    int pre = 1, post = 1;
    int cycle = 0;
    int max_iterations = 150;
    int norm_type = 0;
    double abs_tol = 1e-8, rel_tol = 1e-8; // negative: disabled
    int threads = 1;
    double reduction = 1.0;
    int stencil = 1; // 0 take 1 give
    bool cache_coeff = true, cache_geo = true;
    bool with_exact = true;
    int verbose = 1;
    Value to_json() const;
    static SolverOpts from_json(const Value& v);
    std::string str() const;
    long nodes() const; // finest grid size implied by the parameters (uniform case)
};

// Apply through the public setters.
void apply_opts(GMGPolar& s, const SolverOpts& o);
std::unique_ptr<GMGPolar> new_solver(const SolverOpts& o, Problem& keep_exact_copy);

// Swarm generator for the configuration set of C01 (in_c01_set) or wider.
SolverOpts gen_opts(Rng& g, long max_nodes, bool c01_set);
void bound_cost(SolverOpts& o, long max_nodes, long max_coarsest);

// Independent recomputation of the (extrapolated) residual norm of u on `grid` from fresh input functions.
struct IndepResidual {
    double norm = 0; // in the requested norm type
    double bound = 0; // a-priori rounding bound of that norm (same norm type)
    double rhs_defect = 0; // max_i |f_ref - rhs_lib| / (bound_i) if a library rhs was supplied, else 0
};
IndepResidual independent_residual(const PolarGrid& grid, const SolverOpts& o, const Vector<double>& u,
                                   const Vector<double>* lib_rhs = nullptr);

// parse "||r_k||: <x>" values from the solver's verbose output
std::vector<double> parse_residual_norms(const std::string& out);

} // namespace hs
