// Minimal JSON value (parse + dump) used for plans, results and replay files.
#pragma once
#include <cstdint>
#include <cstdio>
#include <cstdlib>
#include <cstring>
#include <cmath>
#include <map>
#include <stdexcept>
#include <string>
#include <vector>

namespace js {

struct Value;
using Array  = std::vector<Value>;
using Object = std::vector<std::pair<std::string, Value>>; // insertion ordered

struct Value {
    enum Type
    {
        NUL,
        BOOL,
        INT,
        DBL,
        STR,
        ARR,
        OBJ
    } type = NUL;
    bool b     = false;
    int64_t i  = 0;
    double d   = 0;
    std::string s;
    Array a;
    Object o;

    Value() {}
    Value(bool v) : type(BOOL), b(v) {}
    Value(int v) : type(INT), i(v) {}
    Value(long v) : type(INT), i(v) {}
    Value(long long v) : type(INT), i(v) {}
    Value(unsigned v) : type(INT), i(v) {}
    Value(unsigned long v) : type(INT), i((int64_t)v) {}
    Value(unsigned long long v) : type(INT), i((int64_t)v) {}
    Value(double v) : type(DBL), d(v) {}
    Value(const char* v) : type(STR), s(v) {}
    Value(const std::string& v) : type(STR), s(v) {}
    static Value array() { Value v; v.type = ARR; return v; }
    static Value object() { Value v; v.type = OBJ; return v; }

    bool is_null() const { return type == NUL; }
    bool has(const std::string& k) const
    {
        for (auto& kv : o)
            if (kv.first == k)
                return true;
        return false;
    }
    Value& operator[](const std::string& k)
    {
        if (type == NUL)
            type = OBJ;
        for (auto& kv : o)
            if (kv.first == k)
                return kv.second;
        o.emplace_back(k, Value());
        return o.back().second;
    }
    const Value& at(const std::string& k) const
    {
        for (auto& kv : o)
            if (kv.first == k)
                return kv.second;
        return nul_value();
    }
    static const Value& nul_value(); // namespace-scope constant (initialised before main: no lazy init inside threads)
    Value& push(const Value& v)
    {
        if (type == NUL)
            type = ARR;
        a.push_back(v);
        return a.back();
    }
    size_t size() const { return type == ARR ? a.size() : o.size(); }
    const Value& operator[](size_t k) const { return a[k]; }
    Value& operator[](size_t k) { return a[k]; }

    int64_t as_int(int64_t def = 0) const
    {
        if (type == INT)
            return i;
        if (type == DBL)
            return (int64_t)d;
        if (type == BOOL)
            return b;
        return def;
    }
    uint64_t as_u64(uint64_t def = 0) const
    {
        if (type == STR)
            return strtoull(s.c_str(), nullptr, 0);
        if (type == INT)
            return (uint64_t)i;
        if (type == DBL)
            return (uint64_t)d;
        return def;
    }
    double as_double(double def = 0) const
    {
        if (type == DBL)
            return d;
        if (type == INT)
            return (double)i;
        if (type == STR) { // non-finite doubles are stored as strings
            if (s == "nan")
                return std::nan("");
            if (s == "inf")
                return INFINITY;
            if (s == "-inf")
                return -INFINITY;
            return strtod(s.c_str(), nullptr);
        }
        return def;
    }
    bool as_bool(bool def = false) const
    {
        if (type == BOOL)
            return b;
        if (type == INT)
            return i != 0;
        return def;
    }
    std::string as_str(const std::string& def = "") const { return type == STR ? s : def; }

    static void esc(const std::string& in, std::string& out)
    {
        out += '"';
        for (unsigned char c : in) {
            switch (c) {
            case '"': out += "\\\""; break;
            case '\\': out += "\\\\"; break;
            case '\n': out += "\\n"; break;
            case '\r': out += "\\r"; break;
            case '\t': out += "\\t"; break;
            default:
                if (c < 0x20) {
                    char b[8];
                    snprintf(b, sizeof b, "\\u%04x", c);
                    out += b;
                }
                else
                    out += (char)c;
            }
        }
        out += '"';
    }
    void dump(std::string& out) const
    {
        char buf[64];
        switch (type) {
        case NUL: out += "null"; break;
        case BOOL: out += b ? "true" : "false"; break;
        case INT:
            snprintf(buf, sizeof buf, "%lld", (long long)i);
            out += buf;
            break;
        case DBL:
            if (std::isnan(d))
                out += "\"nan\"";
            else if (std::isinf(d))
                out += d > 0 ? "\"inf\"" : "\"-inf\"";
            else {
                snprintf(buf, sizeof buf, "%.17g", d);
                out += buf;
                if (!strpbrk(buf, ".eEn"))
                    out += ".0";
            }
            break;
        case STR: esc(s, out); break;
        case ARR: {
            out += '[';
            bool first = true;
            for (auto& v : a) {
                if (!first)
                    out += ',';
                first = false;
                v.dump(out);
            }
            out += ']';
            break;
        }
        case OBJ: {
            out += '{';
            bool first = true;
            for (auto& kv : o) {
                if (!first)
                    out += ',';
                first = false;
                esc(kv.first, out);
                out += ':';
                kv.second.dump(out);
            }
            out += '}';
            break;
        }
        }
    }
    std::string dump() const
    {
        std::string s2;
        dump(s2);
        return s2;
    }
};

inline const Value g_nul_value{};
inline const Value& Value::nul_value() { return g_nul_value; }

struct Parser {
    const char* p;
    const char* e;
    explicit Parser(const std::string& s) : p(s.data()), e(s.data() + s.size()) {}
    void ws()
    {
        while (p < e && (*p == ' ' || *p == '\n' || *p == '\t' || *p == '\r'))
            p++;
    }
    [[noreturn]] void fail(const char* m) { throw std::runtime_error(std::string("json: ") + m); }
    Value parse()
    {
        ws();
        if (p >= e)
            fail("eof");
        char c = *p;
        if (c == '{') {
            p++;
            Value v = Value::object();
            ws();
            if (p < e && *p == '}') {
                p++;
                return v;
            }
            for (;;) {
                ws();
                Value k = parse_str();
                ws();
                if (p >= e || *p != ':')
                    fail("colon");
                p++;
                Value x = parse();
                v.o.emplace_back(k.s, std::move(x));
                ws();
                if (p < e && *p == ',') {
                    p++;
                    continue;
                }
                if (p < e && *p == '}') {
                    p++;
                    break;
                }
                fail("object");
            }
            return v;
        }
        if (c == '[') {
            p++;
            Value v = Value::array();
            ws();
            if (p < e && *p == ']') {
                p++;
                return v;
            }
            for (;;) {
                v.a.push_back(parse());
                ws();
                if (p < e && *p == ',') {
                    p++;
                    continue;
                }
                if (p < e && *p == ']') {
                    p++;
                    break;
                }
                fail("array");
            }
            return v;
        }
        if (c == '"')
            return parse_str();
        if (!strncmp(p, "true", 4)) {
            p += 4;
            return Value(true);
        }
        if (!strncmp(p, "false", 5)) {
            p += 5;
            return Value(false);
        }
        if (!strncmp(p, "null", 4)) {
            p += 4;
            return Value();
        }
        // number
        const char* q = p;
        bool isd      = false;
        while (q < e && (strchr("+-0123456789.eE", *q))) {
            if (*q == '.' || *q == 'e' || *q == 'E')
                isd = true;
            q++;
        }
        if (q == p)
            fail("value");
        std::string num(p, q);
        p = q;
        if (isd)
            return Value(strtod(num.c_str(), nullptr));
        return Value((long long)strtoll(num.c_str(), nullptr, 10));
    }
    Value parse_str()
    {
        if (p >= e || *p != '"')
            fail("string");
        p++;
        Value v;
        v.type = Value::STR;
        while (p < e && *p != '"') {
            if (*p == '\\' && p + 1 < e) {
                p++;
                switch (*p) {
                case 'n': v.s += '\n'; break;
                case 't': v.s += '\t'; break;
                case 'r': v.s += '\r'; break;
                case 'u': {
                    unsigned x = (unsigned)strtoul(std::string(p + 1, p + 5).c_str(), nullptr, 16);
                    v.s += (char)x;
                    p += 4;
                    break;
                }
                default: v.s += *p;
                }
                p++;
            }
            else
                v.s += *p++;
        }
        if (p >= e)
            fail("unterminated string");
        p++;
        return v;
    }
};

inline Value parse(const std::string& s)
{
    Parser ps(s);
    return ps.parse();
}

} // namespace js
