// Deterministic PRNG used for every decision of the simulator and the plan generators.
// SplitMix64 for seeding / stream derivation, xoshiro256** for the streams.
#pragma once
#include <cstdint>
#include <cmath>

namespace sim {

inline uint64_t splitmix64(uint64_t& s)
{
    uint64_t z = (s += 0x9E3779B97F4A7C15ull);
    z          = (z ^ (z >> 30)) * 0xBF58476D1CE4E5B9ull;
    z          = (z ^ (z >> 27)) * 0x94D049BB133111EBull;
    return z ^ (z >> 31);
}

inline uint64_t mix(uint64_t a, uint64_t b)
{
    uint64_t s = a ^ (b * 0x9E3779B97F4A7C15ull + 0x632BE59BD9B4E019ull);
    splitmix64(s);
    return splitmix64(s);
}

struct Rng {
    uint64_t s[4];
    explicit Rng(uint64_t seed = 1) { reseed(seed); }
    void reseed(uint64_t seed)
    {
        uint64_t x = seed;
        for (int i = 0; i < 4; i++)
            s[i] = splitmix64(x);
    }
    static inline uint64_t rotl(uint64_t x, int k) { return (x << k) | (x >> (64 - k)); }
    uint64_t next()
    {
        const uint64_t r = rotl(s[1] * 5, 7) * 9;
        const uint64_t t = s[1] << 17;
        s[2] ^= s[0];
        s[3] ^= s[1];
        s[1] ^= s[2];
        s[0] ^= s[3];
        s[2] ^= t;
        s[3] = rotl(s[3], 45);
        return r;
    }
    // uniform in [0, n)
    uint64_t below(uint64_t n)
    {
        if (n <= 1)
            return 0;
        // Lemire-free simple rejection (bias-free)
        uint64_t lim = UINT64_MAX - (UINT64_MAX % n);
        uint64_t r;
        do {
            r = next();
        } while (r >= lim);
        return r % n;
    }
    int range(int lo, int hi) { return lo + (int)below((uint64_t)(hi - lo + 1)); } // inclusive
    double uniform() { return (double)(next() >> 11) * (1.0 / 9007199254740992.0); } // [0,1)
    double uniform(double a, double b) { return a + (b - a) * uniform(); }
    bool chance(double p) { return uniform() < p; }
    double loguniform(double a, double b) { return std::exp(uniform(std::log(a), std::log(b))); }
    template <class T>
    const T& pick(const T* arr, int n)
    {
        return arr[below((uint64_t)n)];
    }
    double normal()
    {
        double u1 = uniform(), u2 = uniform();
        if (u1 < 1e-300)
            u1 = 1e-300;
        return std::sqrt(-2.0 * std::log(u1)) * std::cos(6.283185307179586 * u2);
    }
};

inline uint64_t fnv1a(uint64_t h, const void* data, size_t n)
{
    const unsigned char* p = (const unsigned char*)data;
    for (size_t i = 0; i < n; i++) {
        h ^= p[i];
        h *= 0x100000001B3ull;
    }
    return h;
}
inline uint64_t fnv1a_u64(uint64_t h, uint64_t v) { return fnv1a(h, &v, sizeof v); }
constexpr uint64_t FNV_INIT = 0xCBF29CE484222325ull;

} // namespace sim
