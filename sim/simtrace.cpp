// simtrace: our own implementation of the __tsan_* instrumentation callbacks (the library is compiled with
// -fsanitize=thread but NOT linked against libtsan).  Every instrumented access inside a multi-thread region
//   (a) feeds a FastTrack-style happens-before race monitor whose HB edges come from simgomp itself, and
//   (b) is a potential preemption point for the seeded scheduler.
#include "sim_internal.h"
#include <cstdio>
#include <cstdlib>
#include <cstring>
#include <algorithm>
#include <atomic>

namespace sim {

/* ------------------------------------------------------------------ */
/* shadow memory                                                      */
/* ------------------------------------------------------------------ */
struct Rec {
    uint32_t clk;
    uint16_t tid;
    uint8_t off; // byte offset in word (0..7)
    uint8_t szw; // size (1..8) | 0x80 if write ; 0 = empty
    void* pc;
};
struct Cell {
    uintptr_t key; // word address >> 3
    uint64_t epoch; // valid iff == G.epoch
    Rec r[4];
    uint8_t rr; // replacement cursor
};

static Cell* g_tab      = nullptr;
static size_t g_cap     = 0; // power of two
static size_t g_used    = 0;
static bool g_enabled_build = false;

static void tab_alloc(size_t cap)
{
    g_tab = (Cell*)calloc(cap, sizeof(Cell));
    if (!g_tab)
        fatal_verdict("machinery", "shadow table allocation failed", 3);
    g_cap  = cap;
    g_used = 0;
}

static inline size_t hashw(uintptr_t k)
{
    uint64_t x = (uint64_t)k * 0x9E3779B97F4A7C15ull;
    return (size_t)(x >> 20);
}

static Cell* tab_find(uintptr_t key, bool create);

static void tab_grow()
{
    Cell* old     = g_tab;
    size_t oldcap = g_cap;
    tab_alloc(oldcap * 2);
    for (size_t i = 0; i < oldcap; i++) {
        if (old[i].epoch == G.epoch) {
            Cell* c = tab_find(old[i].key, true);
            memcpy(c->r, old[i].r, sizeof c->r);
            c->rr = old[i].rr;
        }
    }
    free(old);
}

static Cell* tab_find(uintptr_t key, bool create)
{
    if (!g_tab)
        tab_alloc(1u << 16);
    size_t mask = g_cap - 1;
    size_t i    = hashw(key) & mask;
    for (;;) {
        Cell* c = &g_tab[i];
        if (c->epoch != G.epoch) {
            if (!create)
                return nullptr;
            if (g_used * 2 > g_cap) {
                tab_grow();
                return tab_find(key, true);
            }
            c->key   = key;
            c->epoch = G.epoch;
            memset(c->r, 0, sizeof c->r);
            c->rr = 0;
            g_used++;
            return c;
        }
        if (c->key == key)
            return c;
        i = (i + 1) & mask;
    }
}

void monitor_epoch_clear()
{
    G.epoch++;
    g_used = 0;
}
void monitor_region_begin(Team*) { monitor_epoch_clear(); }

void monitor_free_range(uintptr_t addr, size_t n)
{
    RtGuard rtg;
    if (!G.active || !g_tab || n == 0)
        return;
    uintptr_t w0 = addr >> 3, w1 = (addr + n - 1) >> 3;
    if (w1 - w0 > (1u << 22))
        return;
    for (uintptr_t w = w0; w <= w1; w++) {
        Cell* c = tab_find(w, false);
        if (c)
            memset(c->r, 0, sizeof c->r);
    }
}

/* allocation registry (names racing addresses by allocation sequence number) */
struct AllocInfo {
    uintptr_t base;
    size_t size;
    long id;
};
static AllocInfo g_allocs[1 << 12];
static long g_alloc_seq = 0;
void note_alloc(void* p, size_t n)
{
    long id                      = ++g_alloc_seq;
    g_allocs[id & ((1 << 12) - 1)] = AllocInfo{(uintptr_t)p, n, id};
}
static void find_alloc(uintptr_t a, long& id, long& off)
{
    id  = -1;
    off = 0;
    long best = -1;
    for (int i = 0; i < (1 << 12); i++) {
        const AllocInfo& ai = g_allocs[i];
        if (ai.id > 0 && a >= ai.base && a < ai.base + ai.size && ai.id > best) {
            best = ai.id;
            id   = ai.id;
            off  = (long)(a - ai.base);
        }
    }
}

static void report_race(Thread* t, uintptr_t addr, int size, bool write, void* pc, const Rec& r)
{
    Team* tm = t->team;
    // dedupe on the pair of code locations
    for (const RaceReport& q : G.races)
        if ((q.pc_a == r.pc && q.pc_b == pc) || (q.pc_a == pc && q.pc_b == r.pc))
            return;
    if (G.races.size() >= 64)
        return;
    RaceReport rep;
    rep.addr      = addr;
    rep.size_a    = r.szw & 0x7f;
    rep.size_b    = size;
    rep.write_a   = (r.szw & 0x80) != 0;
    rep.write_b   = write;
    rep.tid_a     = r.tid;
    rep.tid_b     = t->tid;
    rep.pc_a      = r.pc;
    rep.pc_b      = pc;
    rep.region_fn = (void*)tm->fn;
    rep.team      = tm->n;
    find_alloc(addr, rep.alloc_id, rep.alloc_off);
    G.races.push_back(rep);
}

static inline void check_word(Thread* t, uintptr_t addr, int off, int size, bool write, void* pc)
{
    Cell* c      = tab_find(addr >> 3, true);
    const int lo = off, hi = off + size;
    int mine     = -1, empty = -1;
    G.st.checked++;
    for (int i = 0; i < 4; i++) {
        Rec& r = c->r[i];
        if (r.szw == 0) {
            if (empty < 0)
                empty = i;
            continue;
        }
        const int rlo = r.off, rhi = r.off + (r.szw & 0x7f);
        if (r.tid == t->tid) {
            if (rlo == lo && rhi == hi)
                mine = i; // same thread, same footprint
            continue;
        }
        if (rlo < hi && lo < rhi && (write || (r.szw & 0x80))) {
            if (r.clk > t->vc[r.tid])
                report_race(t, addr + (uintptr_t)0, size, write, pc, r);
        }
    }
    Rec nr;
    nr.clk = t->vc[t->tid];
    nr.tid = (uint16_t)t->tid;
    nr.off = (uint8_t)off;
    nr.szw = (uint8_t)(size | (write ? 0x80 : 0));
    nr.pc  = pc;
    if (mine >= 0) {
        if (write || !(c->r[mine].szw & 0x80)) // never downgrade a write record to a read record
            c->r[mine] = nr;
        else
            c->r[mine].clk = nr.clk;
    }
    else if (empty >= 0)
        c->r[empty] = nr;
    else {
        // evict: prefer a read record of another footprint, round robin otherwise (can miss, never invents)
        c->r[c->rr & 3] = nr;
        c->rr++;
    }
}

static inline void preempt_maybe(Thread* t)
{
    Team* tm = t->team;
    if (++tm->steps > G.cfg.step_budget)
        fatal_verdict("stall", "step budget exceeded inside region (accesses)", 87);
    if (G.cfg.policy == POL_RANDOM) {
        if (G.preempt_countdown < 0) {
            // geometric gap with mean 1/p
            double p = G.cfg.preempt_p;
            if (p <= 0) {
                G.preempt_countdown = INT64_MAX;
            }
            else {
                double u            = G.sched.uniform();
                if (u < 1e-300)
                    u = 1e-300;
                G.preempt_countdown = (int64_t)(std::log(u) / std::log1p(-std::min(p, 0.999999)));
            }
        }
        if (G.preempt_countdown-- == 0) {
            G.preempt_countdown = -1;
            G.st.preemptions++;
            sched_point(t);
        }
    }
    else if (G.cfg.policy == POL_PCT) {
        if (tm->pct_next < tm->pct_points.size() && tm->steps >= tm->pct_points[tm->pct_next]) {
            G.st.preemptions++;
            sched_point(t);
        }
    }
}

static inline void on_access(void* p, int size, bool write, void* pc)
{
    if (!G.active || tl_rt)
        return;
    RtGuard rtg;
    Thread* t = tl_me;
    if (!t || !t->team || t->inline_depth > 0)
        return;
    G.st.accesses++;
    if (!G.clock_frozen)
        G.clock_ns += 1;
    uintptr_t a = (uintptr_t)p;
    if (G.cfg.monitor) {
        int off = (int)(a & 7);
        if (off + size <= 8)
            check_word(t, a & ~(uintptr_t)7, off, size, write, pc);
        else {
            // straddles words (16-byte or unaligned accesses)
            uintptr_t cur = a;
            int left      = size;
            while (left > 0) {
                int o = (int)(cur & 7);
                int s = std::min(left, 8 - o);
                check_word(t, cur & ~(uintptr_t)7, o, s, write, pc);
                cur += (uintptr_t)s;
                left -= s;
            }
        }
    }
    preempt_maybe(t);
}

static inline void on_range(void* p, size_t n, bool write, void* pc)
{
    if (!G.active || n == 0 || tl_rt)
        return;
    RtGuard rtg;
    Thread* t = tl_me;
    if (!t || !t->team || t->inline_depth > 0)
        return;
    uintptr_t a = (uintptr_t)p;
    if (G.cfg.monitor) {
        uintptr_t cur = a;
        size_t left   = n;
        while (left > 0) {
            int o = (int)(cur & 7);
            int s = (int)std::min<size_t>(left, (size_t)(8 - o));
            check_word(t, cur & ~(uintptr_t)7, o, s, write, pc);
            cur += (uintptr_t)s;
            left -= (size_t)s;
        }
    }
    G.st.accesses++;
    preempt_maybe(t);
}

bool trace_build() { return g_enabled_build; }

} // namespace sim

using namespace sim;

#define PC __builtin_return_address(0)

extern "C" {

void __tsan_init(void) { sim::g_enabled_build = true; }
void __tsan_func_entry(void*) {}
void __tsan_func_exit(void) {}
void __tsan_vptr_update(void** vptr, void* val)
{
    (void)val;
    on_access(vptr, 8, true, PC);
}
void __tsan_vptr_read(void** vptr) { on_access(vptr, 8, false, PC); }

void __tsan_read1(void* a) { on_access(a, 1, false, PC); }
void __tsan_read2(void* a) { on_access(a, 2, false, PC); }
void __tsan_read4(void* a) { on_access(a, 4, false, PC); }
void __tsan_read8(void* a) { on_access(a, 8, false, PC); }
void __tsan_read16(void* a) { on_access(a, 16, false, PC); }
void __tsan_write1(void* a) { on_access(a, 1, true, PC); }
void __tsan_write2(void* a) { on_access(a, 2, true, PC); }
void __tsan_write4(void* a) { on_access(a, 4, true, PC); }
void __tsan_write8(void* a) { on_access(a, 8, true, PC); }
void __tsan_write16(void* a) { on_access(a, 16, true, PC); }
void __tsan_unaligned_read2(void* a) { on_access(a, 2, false, PC); }
void __tsan_unaligned_read4(void* a) { on_access(a, 4, false, PC); }
void __tsan_unaligned_read8(void* a) { on_access(a, 8, false, PC); }
void __tsan_unaligned_read16(void* a) { on_access(a, 16, false, PC); }
void __tsan_unaligned_write2(void* a) { on_access(a, 2, true, PC); }
void __tsan_unaligned_write4(void* a) { on_access(a, 4, true, PC); }
void __tsan_unaligned_write8(void* a) { on_access(a, 8, true, PC); }
void __tsan_unaligned_write16(void* a) { on_access(a, 16, true, PC); }
void __tsan_read_range(void* a, unsigned long n) { on_range(a, n, false, PC); }
void __tsan_write_range(void* a, unsigned long n) { on_range(a, n, true, PC); }

/* memcpy & friends: redirected with -Wl,--wrap */
#ifdef SIM_WRAP_MEM
void* __real_memcpy(void*, const void*, size_t);
void* __real_memmove(void*, const void*, size_t);
void* __real_memset(void*, int, size_t);
void* __wrap_memcpy(void* d, const void* s, size_t n)
{
    if (G.active) {
        on_range((void*)s, n, false, PC);
        on_range(d, n, true, PC);
    }
    return __real_memcpy(d, s, n);
}
void* __wrap_memmove(void* d, const void* s, size_t n)
{
    if (G.active) {
        on_range((void*)s, n, false, PC);
        on_range(d, n, true, PC);
    }
    return __real_memmove(d, s, n);
}
void* __wrap_memset(void* d, int c, size_t n)
{
    if (G.active)
        on_range(d, n, true, PC);
    return __real_memset(d, c, n);
}

#endif

/* atomics: performed for real (the baton serialises us anyway), treated as acquire+release on the address */
typedef int morder;
#define SIM_ATOMIC(BITS, T)                                                                                            \
    T __tsan_atomic##BITS##_load(const volatile T* a, morder)                                                          \
    {                                                                                                                  \
        Thread* t = tl_me;                                                                                             \
        if (G.active && t && t->team) {                                                                                \
            sched_point(t);                                                                                            \
            atomic_sync(t, (uintptr_t)a);                                                                              \
        }                                                                                                              \
        return *a;                                                                                                     \
    }                                                                                                                  \
    void __tsan_atomic##BITS##_store(volatile T* a, T v, morder)                                                       \
    {                                                                                                                  \
        Thread* t = tl_me;                                                                                             \
        if (G.active && t && t->team) {                                                                                \
            sched_point(t);                                                                                            \
            atomic_sync(t, (uintptr_t)a);                                                                              \
        }                                                                                                              \
        *a = v;                                                                                                        \
    }                                                                                                                  \
    T __tsan_atomic##BITS##_exchange(volatile T* a, T v, morder)                                                       \
    {                                                                                                                  \
        Thread* t = tl_me;                                                                                             \
        if (G.active && t && t->team) {                                                                                \
            sched_point(t);                                                                                            \
            atomic_sync(t, (uintptr_t)a);                                                                              \
        }                                                                                                              \
        T o = *a;                                                                                                      \
        *a  = v;                                                                                                       \
        return o;                                                                                                      \
    }                                                                                                                  \
    int __tsan_atomic##BITS##_compare_exchange_strong(volatile T* a, T* c, T v, morder, morder)                        \
    {                                                                                                                  \
        Thread* t = tl_me;                                                                                             \
        if (G.active && t && t->team) {                                                                                \
            sched_point(t);                                                                                            \
            atomic_sync(t, (uintptr_t)a);                                                                              \
        }                                                                                                              \
        if (*a == *c) {                                                                                                \
            *a = v;                                                                                                    \
            return 1;                                                                                                  \
        }                                                                                                              \
        *c = *a;                                                                                                       \
        return 0;                                                                                                      \
    }                                                                                                                  \
    int __tsan_atomic##BITS##_compare_exchange_weak(volatile T* a, T* c, T v, morder m1, morder m2)                    \
    {                                                                                                                  \
        return __tsan_atomic##BITS##_compare_exchange_strong(a, c, v, m1, m2);                                         \
    }                                                                                                                  \
    T __tsan_atomic##BITS##_compare_exchange_val(volatile T* a, T c, T v, morder m1, morder m2)                        \
    {                                                                                                                  \
        __tsan_atomic##BITS##_compare_exchange_strong(a, &c, v, m1, m2);                                               \
        return c;                                                                                                      \
    }
#define SIM_ATOMIC_RMW(BITS, T, NAME, OP)                                                                              \
    T __tsan_atomic##BITS##_fetch_##NAME(volatile T* a, T v, morder)                                                   \
    {                                                                                                                  \
        Thread* t = tl_me;                                                                                             \
        if (G.active && t && t->team) {                                                                                \
            sched_point(t);                                                                                            \
            atomic_sync(t, (uintptr_t)a);                                                                              \
        }                                                                                                              \
        T o = *a;                                                                                                      \
        *a  = (T)(o OP v);                                                                                             \
        return o;                                                                                                      \
    }
#define SIM_ATOMIC_ALL(BITS, T)                                                                                        \
    SIM_ATOMIC(BITS, T)                                                                                                \
    SIM_ATOMIC_RMW(BITS, T, add, +)                                                                                    \
    SIM_ATOMIC_RMW(BITS, T, sub, -)                                                                                    \
    SIM_ATOMIC_RMW(BITS, T, and, &)                                                                                    \
    SIM_ATOMIC_RMW(BITS, T, or, |)                                                                                     \
    SIM_ATOMIC_RMW(BITS, T, xor, ^)
SIM_ATOMIC_ALL(8, unsigned char)
SIM_ATOMIC_ALL(16, unsigned short)
SIM_ATOMIC_ALL(32, unsigned int)
SIM_ATOMIC_ALL(64, unsigned long)
SIM_ATOMIC_ALL(128, unsigned __int128)
void __tsan_atomic_thread_fence(morder) {}
void __tsan_atomic_signal_fence(morder) {}

} // extern "C"
