// simgomp: a deterministic replacement for libgomp.  The library under test is compiled with -fopenmp (so its
// pragmas are lowered to GOMP_* calls) but linked against this file instead of libgomp.  Team members are real
// pthreads; exactly one of them holds the baton at any time and every hand-over is decided by a seeded PRNG.
#include "sim_internal.h"
#include <cstdio>
#include <cstdlib>
#include <cstring>
#include <unistd.h>
#include <algorithm>
#include <map>
#include <string>

namespace sim {

Global G;
thread_local Thread* tl_me = nullptr;
thread_local int tl_rt       = 0;
static std::vector<Thread*> g_pool; // worker threads (never includes the main thread)
static std::map<void*, uint64_t> g_len_estimate; // region fn -> steps of its last execution (for PCT)
static std::map<void*, SimLock> g_locks;
static SimLock g_critical, g_atomic;
static const bool g_trace_events = getenv("GMGSIM_TRACE") != nullptr; // replay aid: event log on stderr

Thread* me()
{
    if (!tl_me) {
        RtGuard rtg; // the allocation below is the simulator's own: never counted, failed or traced
        Thread* t = new Thread();
        sem_init(&t->sem, 0, 0);
        t->pool_id = -1;
        tl_me      = t;
    }
    return tl_me;
}

[[noreturn]] void fatal_verdict(const char* cls, const std::string& detail, int exit_code)
{
    std::string d;
    for (char c : detail) {
        if (c == '"' || c == '\\')
            d += '\\';
        if (c == '\n')
            d += "\\n";
        else
            d += c;
    }
    fflush(stdout);
    fprintf(stdout, "\n@@FATAL {\"class\":\"%s\",\"detail\":\"%s\"}\n", cls, d.c_str());
    fflush(stdout);
    _exit(exit_code);
}

/* ------------------------------------------------------------------ */
/* run control                                                        */
/* ------------------------------------------------------------------ */
void begin_run(const Config& cfg)
{
    G.cfg = cfg;
    G.st  = Stats();
    G.sched.reseed(mix(cfg.sched_seed, 0x5C4ED));
    G.fp                = FNV_INIT;
    G.region_counter    = 0;
    G.races.clear();
    G.preempt_countdown = -1;
    G.clock_ns          = 1700000000ull * 1000000000ull;
    G.clock_frozen      = false;
    G.running           = true;
    G.icv_nthreads      = 1;
    g_len_estimate.clear();
    monitor_drop_sync();
    monitor_epoch_clear();
}
void end_run()
{
    G.running      = false;
    G.icv_nthreads = 1;
    G.cfg.policy   = POL_RR;
    // simulated time covered = what the discrete clock advanced by itself (injected jumps are faults, not covered time)
}
const Config& config() { return G.cfg; }
Stats& stats() { return G.st; }
std::vector<RaceReport>& races() { return G.races; }
uint64_t fingerprint() { return G.fp; }
void fp_mix(const void* p, size_t n) { G.fp = fnv1a(G.fp, p, n); }
void fp_mix_u64(uint64_t v) { G.fp = fnv1a_u64(G.fp, v); }
bool in_parallel()
{
    Thread* t = me();
    return t->team != nullptr && t->inline_depth == 0;
}

bool in_any_region()
{
    Thread* t = me();
    return t->team != nullptr || t->inline_depth > 0;
}

uint64_t now_ns() { return G.clock_ns; }
void clock_advance(uint64_t ns)
{
    if (!G.clock_frozen)
        G.clock_ns += ns;
    G.st.sim_time_ns += ns;
}
void clock_fault_jump(int64_t ns) { G.clock_ns = (uint64_t)((int64_t)G.clock_ns + ns); }
void clock_fault_freeze(bool on) { G.clock_frozen = on; }

/* ------------------------------------------------------------------ */
/* scheduler                                                          */
/* ------------------------------------------------------------------ */
static void describe_team(Team* tm, std::string& out)
{
    char buf[128];
    snprintf(buf, sizeof buf, "region#%llu fn=%p team=%d states=", (unsigned long long)tm->region_id, (void*)tm->fn,
             tm->n);
    out += buf;
    static const char* nm = "IRBJLD";
    for (int i = 0; i < tm->n && i < 64; i++)
        out += nm[tm->th[i]->state];
}

static Thread* pick_next(Team* tm, Thread* cur)
{
    // collect runnable threads
    int nrun = 0;
    static thread_local std::vector<Thread*> run;
    run.clear();
    for (int i = 0; i < tm->n; i++)
        if (tm->th[i]->state == TS_RUNNABLE)
            run.push_back(tm->th[i]);
    nrun = (int)run.size();
    if (nrun == 0)
        return nullptr;
    if (nrun == 1)
        return run[0];
    switch (G.cfg.policy) {
    case POL_RR:
        return run[0]; // lowest runnable tid: the canonical schedule
    case POL_PCT: {
        Thread* best = run[0];
        for (Thread* t : run)
            if (t->prio > best->prio)
                best = t;
        return best;
    }
    case POL_STARVE: {
        int victim = G.cfg.starve_tid % tm->n;
        std::vector<Thread*>& r2 = run;
        int cnt                  = 0;
        for (Thread* t : r2)
            if (t->tid != victim)
                cnt++;
        if (cnt == 0)
            return run[0];
        int k = (int)G.sched.below((uint64_t)cnt);
        for (Thread* t : r2)
            if (t->tid != victim) {
                if (k == 0)
                    return t;
                k--;
            }
        return run[0];
    }
    default:
        (void)cur;
        return run[G.sched.below((uint64_t)nrun)];
    }
}

static inline void switch_to(Team* tm, Thread* from, Thread* to)
{
    if (from == to)
        return;
    G.st.switches++;
    uint64_t ev[3] = {tm->region_id, ((uint64_t)from->tid << 32) | (uint64_t)to->tid, tm->steps};
    G.fp           = fnv1a(G.fp, ev, sizeof ev);
    uint64_t ev2[2] = {tm->region_id, ((uint64_t)from->tid << 32) | (uint64_t)to->tid};
    G.st.sched_fp   = fnv1a(G.st.sched_fp, ev2, sizeof ev2);
    tm->running    = to;
    if (g_trace_events)
        fprintf(stderr, "[sim] region#%llu switch t%d -> t%d at step %llu\n", (unsigned long long)tm->region_id, from->tid,
                to->tid, (unsigned long long)tm->steps);
    sem_post(&to->sem);
    sem_wait(&from->sem);
}

static void deadlock(Team* tm, const char* where)
{
    std::string d = std::string("no runnable thread at ") + where + ": ";
    describe_team(tm, d);
    fatal_verdict("deadlock", d, 86);
}

static inline void budget(Team* tm)
{
    if (++tm->steps > G.cfg.step_budget) {
        std::string d = "step budget exceeded: ";
        describe_team(tm, d);
        fatal_verdict("stall", d, 87);
    }
}

// t is runnable and currently holds the baton.
void sched_point(Thread* t)
{
    RtGuard rtg;
    Team* tm = t->team;
    if (!tm || t->inline_depth > 0 || tm->n == 1)
        return;
    G.st.sched_points++;
    budget(tm);
    if (G.cfg.policy == POL_PCT && tm->pct_next < tm->pct_points.size() && tm->steps >= tm->pct_points[tm->pct_next]) {
        t->prio = tm->pct_low--;
        tm->pct_next++;
    }
    Thread* next = pick_next(tm, t);
    if (next != t)
        switch_to(tm, t, next);
}

void yield_point()
{
    Thread* t = me();
    clock_advance(100);
    sched_point(t);
}

// t blocks (state already set to a blocked state); hand the baton to someone else, return when rescheduled.
static void block_and_switch(Team* tm, Thread* t, const char* where)
{
    Thread* next = pick_next(tm, t);
    if (!next)
        deadlock(tm, where);
    if (next == t)
        return; // became runnable again by our own action (last arrival at a barrier)
    switch_to(tm, t, next);
}

/* ------------------------------------------------------------------ */
/* thread pool                                                        */
/* ------------------------------------------------------------------ */
static void thread_end(Thread* w)
{
    RtGuard rtg;
    Team* tm       = w->team;
    Thread* master = tm->th[0];
    w->state       = TS_DONE;
    tm->done++;
    if (tm->done == tm->n - 1 && master->state == TS_JOIN)
        master->state = TS_RUNNABLE;
    Thread* next = pick_next(tm, w);
    if (!next)
        deadlock(tm, "thread end");
    G.st.switches++;
    uint64_t ev[3] = {tm->region_id, ((uint64_t)w->tid << 32) | (uint64_t)next->tid, tm->steps};
    G.fp           = fnv1a(G.fp, ev, sizeof ev);
    uint64_t ev2[2] = {tm->region_id, ((uint64_t)w->tid << 32) | (uint64_t)next->tid};
    G.st.sched_fp   = fnv1a(G.st.sched_fp, ev2, sizeof ev2);
    tm->running    = next;
    sem_post(&next->sem); // nothing of tm may be touched after this line
}

static void* worker_main(void* arg)
{
    Thread* w = (Thread*)arg;
    tl_me     = w;
    for (;;) {
        sem_wait(&w->sem);
        if (w->quit)
            return nullptr;
        Team* tm = w->team;
        tm->fn(tm->data);
        thread_end(w);
    }
}

static Thread* pool_get(int idx)
{
    while ((int)g_pool.size() <= idx) {
        Thread* w  = new Thread();
        w->pool_id = (int)g_pool.size();
        sem_init(&w->sem, 0, 0);
        pthread_attr_t at;
        pthread_attr_init(&at);
        pthread_attr_setstacksize(&at, 4u << 20);
        if (pthread_create(&w->pt, &at, worker_main, w) != 0) {
            fatal_verdict("machinery", "pthread_create failed", 3);
        }
        pthread_attr_destroy(&at);
        g_pool.push_back(w);
    }
    return g_pool[idx];
}

/* ------------------------------------------------------------------ */
/* parallel regions                                                   */
/* ------------------------------------------------------------------ */
static inline void hist_team(int n)
{
    int b = n <= 4 ? n - 1 : n <= 8 ? 4 : n <= 16 ? 5 : n <= 32 ? 6 : n <= 64 ? 7 : 8;
    G.st.team_hist[b]++;
    if (n > G.st.max_team)
        G.st.max_team = n;
}

static void run_region(void (*fn)(void*), void* data, int req, bool exact, const WorkShare* pre_ws)
{
    RtGuard rtg;
    Thread* t = me();
    clock_advance(100);
    G.st.regions++;
    RegionStat& rs = G.st.by_fn[(void*)fn];
    rs.count++;
    if (req < 1)
        req = 1;
    if (req > rs.max_req)
        rs.max_req = req;
    int n = req;
    if (t->team != nullptr || t->inline_depth > 0) {
        if (req > 1)
            G.st.nested++;
        n = 1; // nested regions are serialised (libgomp default: max-active-levels 1)
    }
    if (n > G.cfg.thread_limit)
        n = G.cfg.thread_limit;
    if (n > 1 && !exact && G.running && G.cfg.shortfall_p > 0 && G.sched.chance(G.cfg.shortfall_p)) {
        n = 1 + (int)G.sched.below((uint64_t)(n - 1)); // 1 .. n-1 threads delivered
        G.st.shortfalls++;
        rs.shortfalls++;
    }
    if (G.running && G.cfg.clock_jump_p > 0 && G.sched.chance(G.cfg.clock_jump_p)) {
        // clock fault: jump forwards/backwards by up to an hour, or toggle a freeze
        uint64_t k = G.sched.below(3);
        if (k == 0)
            clock_fault_jump((int64_t)G.sched.below(3600ull * 1000000000ull));
        else if (k == 1)
            clock_fault_jump(-(int64_t)G.sched.below(3600ull * 1000000000ull));
        else
            clock_fault_freeze(!G.clock_frozen);
        G.st.clock_faults++;
    }
    hist_team(n);
    if (n > rs.max_team)
        rs.max_team = n;
    uint64_t rid = ++G.region_counter;
    if (g_trace_events)
        fprintf(stderr, "[sim] region#%llu fn=%p requested=%d delivered=%d%s\n", (unsigned long long)rid, (void*)fn, req, n,
                n < req && n >= 1 && req <= G.cfg.thread_limit && !(t->team || t->inline_depth) ? " (shortfall)" : "");
    {
        uint64_t ev[2] = {rid, (uint64_t)n};
        G.fp           = fnv1a(G.fp, ev, sizeof ev);
    }
    if (n == 1) {
        t->inline_depth++;
        size_t ws_mark = t->inline_ws.size();
        if (pre_ws) {
            Thread::InlineWS w{pre_ws->next, pre_ws->end, pre_ws->incr, pre_ws->chunk, pre_ws->sections_next, pre_ws->sections_n};
            t->inline_ws.push_back(w);
        }
        {
            int saved = tl_rt;
            tl_rt     = 0;
            fn(data);
            tl_rt = saved;
        }
        t->inline_ws.resize(ws_mark);
        t->inline_depth--;
        return;
    }
    G.st.par_regions++;
    rs.parallel++;
    Team tm;
    tm.n         = n;
    tm.fn        = fn;
    tm.data      = data;
    tm.region_id = rid;
    tm.th.resize(n);
    tm.th[0] = t;
    for (int i = 1; i < n; i++)
        tm.th[i] = pool_get(i - 1);
    for (int i = 0; i < n; i++) {
        Thread* th   = tm.th[i];
        th->team     = &tm;
        th->tid      = i;
        th->state    = TS_RUNNABLE;
        th->ws_seq   = 0;
        th->cur_ws   = -1;
        th->vc.assign(n, 0);
        th->vc[i] = 1;
        th->prio  = 0;
    }
    if (pre_ws) {
        tm.ws.push_back(*pre_ws);
        for (int i = 0; i < n; i++) {
            tm.th[i]->ws_seq = 1;
            tm.th[i]->cur_ws = 0;
        }
    }
    if (G.cfg.policy == POL_PCT) {
        // random distinct priorities, d-1 change points over the estimated length
        std::vector<long> pr(n);
        for (int i = 0; i < n; i++)
            pr[i] = 1000 + i;
        for (int i = n - 1; i > 0; i--)
            std::swap(pr[i], pr[G.sched.below((uint64_t)i + 1)]);
        for (int i = 0; i < n; i++)
            tm.th[i]->prio = pr[i];
        uint64_t est = 20000;
        auto it      = g_len_estimate.find((void*)fn);
        if (it != g_len_estimate.end() && it->second > 0)
            est = it->second;
        int d = std::max(1, G.cfg.pct_depth);
        for (int k = 0; k < d - 1; k++)
            tm.pct_points.push_back(1 + G.sched.below(est));
        std::sort(tm.pct_points.begin(), tm.pct_points.end());
        tm.pct_low = 999;
    }
    G.active = &tm;
    monitor_region_begin(&tm);
    G.preempt_countdown = -1;
    tm.running          = t;
    // fork: the first scheduling decision
    Thread* first = pick_next(&tm, t);
    if (first != t)
        switch_to(&tm, t, first);
    {
        int saved = tl_rt;
        tl_rt     = 0;
        fn(data);
        tl_rt = saved;
    }
    // join
    if (tm.done < n - 1) {
        t->state = TS_JOIN;
        block_and_switch(&tm, t, "join");
    }
    g_len_estimate[(void*)fn] = tm.steps;
    G.active                  = nullptr;
    monitor_epoch_clear();
    for (int i = 1; i < n; i++) {
        tm.th[i]->team  = nullptr;
        tm.th[i]->state = TS_IDLE;
    }
    t->team  = nullptr;
    t->tid   = 0;
    t->state = TS_IDLE;
    clock_advance(100);
}

static void barrier_impl(Thread* t)
{
    RtGuard rtg;
    Team* tm = t->team;
    clock_advance(100);
    if (!tm || t->inline_depth > 0 || tm->n == 1)
        return;
    G.st.barriers++;
    budget(tm);
    t->state = TS_BARRIER;
    tm->arrived++;
    if (tm->arrived == tm->n) {
        tm->arrived = 0;
        tm->barrier_gen++;
        for (int i = 0; i < tm->n; i++)
            tm->th[i]->state = TS_RUNNABLE;
        monitor_epoch_clear(); // a team-wide barrier orders everything before it with everything after it
        uint64_t ev[2] = {tm->region_id, 0xBA44 + tm->barrier_gen};
        G.fp           = fnv1a(G.fp, ev, sizeof ev);
    }
    block_and_switch(tm, t, "barrier");
}

static void lock_acquire(SimLock& L)
{
    RtGuard rtg;
    Thread* t = me();
    Team* tm  = t->team;
    clock_advance(100);
    if (!tm || t->inline_depth > 0 || tm->n == 1) {
        L.owner = t;
        return;
    }
    sched_point(t);
    while (L.owner != nullptr) {
        if (L.owner == t)
            fatal_verdict("deadlock", "thread re-acquires a lock it already holds", 86);
        t->state        = TS_LOCK;
        t->waiting_lock = &L;
        block_and_switch(tm, t, "lock");
    }
    L.owner = t;
    if (L.vc.size() == t->vc.size())
        for (size_t i = 0; i < t->vc.size(); i++)
            t->vc[i] = std::max(t->vc[i], L.vc[i]);
}
static void lock_release(SimLock& L)
{
    RtGuard rtg;
    Thread* t = me();
    Team* tm  = t->team;
    L.owner   = nullptr;
    if (!tm || t->inline_depth > 0 || tm->n == 1)
        return;
    L.vc = t->vc;
    t->vc[t->tid]++;
    for (int i = 0; i < tm->n; i++)
        if (tm->th[i]->state == TS_LOCK && tm->th[i]->waiting_lock == &L) {
            tm->th[i]->state        = TS_RUNNABLE;
            tm->th[i]->waiting_lock = nullptr;
        }
    sched_point(t);
}

static std::map<uintptr_t, std::vector<uint32_t>> g_sync_vc;
void monitor_drop_sync()
{
    g_sync_vc.clear();
    g_critical = SimLock();
    g_atomic   = SimLock();
    g_locks.clear();
}
void atomic_sync(Thread* t, uintptr_t addr)
{
    RtGuard rtg;
    Team* tm = t->team;
    if (!tm || t->inline_depth > 0 || tm->n == 1)
        return;
    G.st.atomics++;
    std::vector<uint32_t>& s = g_sync_vc[addr];
    if (s.size() != t->vc.size())
        s.assign(t->vc.size(), 0);
    for (size_t i = 0; i < s.size(); i++) {
        uint32_t m = std::max(s[i], t->vc[i]);
        s[i]       = m;
        t->vc[i]   = m;
    }
    t->vc[t->tid]++;
}

void run_callers(int n, const std::function<void(int)>& body)
{
    struct Ctx {
        const std::function<void(int)>* b;
    } ctx{&body};
    auto tramp = [](void* p) {
        Ctx* c    = (Ctx*)p;
        Thread* t = me();
        (*c->b)(t->inline_depth > 0 ? 0 : t->tid);
    };
    run_region(tramp, &ctx, n, true, nullptr);
}

/* ------------------------------------------------------------------ */
/* work-sharing helpers                                               */
/* ------------------------------------------------------------------ */
static WorkShare* ws_enter(Thread* t, int kind, long start, long end, long incr, long chunk)
{
    Team* tm     = t->team;
    uint64_t idx = t->ws_seq++;
    if (idx >= tm->ws.size()) {
        WorkShare w;
        w.kind  = kind;
        w.next  = start;
        w.end   = end;
        w.incr  = incr;
        w.chunk = chunk < 1 ? 1 : chunk;
        tm->ws.push_back(w);
    }
    t->cur_ws = (long)idx;
    return &tm->ws[idx];
}

static bool ws_take(WorkShare* w, int nthreads, long* istart, long* iend)
{
    long remaining;
    if (w->incr > 0)
        remaining = (w->end - w->next + w->incr - 1) / w->incr;
    else
        remaining = (w->next - w->end - w->incr - 1) / (-w->incr);
    if (remaining <= 0)
        return false;
    long take = w->chunk;
    if (w->kind == 1) { // guided
        long g = (remaining + nthreads - 1) / nthreads;
        if (g > take)
            take = g;
    }
    if (take > remaining)
        take = remaining;
    *istart = w->next;
    *iend   = w->next + take * w->incr;
    w->next = *iend;
    return true;
}

static inline bool solo(Thread* t) { return !t->team || t->inline_depth > 0 || t->team->n == 1; }

static bool loop_start(int kind, long start, long end, long incr, long chunk, long* istart, long* iend)
{
    RtGuard rtg;
    Thread* t = me();
    clock_advance(100);
    if (solo(t)) {
        Thread::InlineWS w{start, end, incr, chunk < 1 ? 1 : chunk, 1, 0};
        t->inline_ws.push_back(w);
        bool more = (incr > 0) ? start < end : start > end;
        if (!more)
            return false;
        *istart                  = start;
        *iend                    = end;
        t->inline_ws.back().next = end;
        return true;
    }
    sched_point(t);
    WorkShare* w = ws_enter(t, kind, start, end, incr, chunk);
    return ws_take(w, t->team->n, istart, iend);
}
static bool loop_next(long* istart, long* iend)
{
    RtGuard rtg;
    Thread* t = me();
    clock_advance(100);
    if (solo(t)) {
        if (t->inline_ws.empty())
            return false;
        Thread::InlineWS& w = t->inline_ws.back();
        bool more           = (w.incr > 0) ? w.next < w.end : w.next > w.end;
        if (!more)
            return false;
        *istart = w.next;
        *iend   = w.end;
        w.next  = w.end;
        return true;
    }
    sched_point(t);
    return ws_take(&t->team->ws[t->cur_ws], t->team->n, istart, iend);
}
static void loop_end(bool wait)
{
    RtGuard rtg;
    Thread* t = me();
    if (solo(t)) {
        if (!t->inline_ws.empty())
            t->inline_ws.pop_back();
        return;
    }
    if (wait)
        barrier_impl(t);
}

} // namespace sim

using namespace sim;

/* ====================================================================== */
/* The GOMP / omp ABI                                                     */
/* ====================================================================== */
extern "C" {

void GOMP_parallel(void (*fn)(void*), void* data, unsigned num_threads, unsigned /*flags*/)
{
    run_region(fn, data, num_threads ? (int)num_threads : G.icv_nthreads, false, nullptr);
}
void GOMP_barrier(void) { barrier_impl(me()); }
bool GOMP_barrier_cancel(void)
{
    barrier_impl(me());
    return false;
}

/* loops */
#define SIM_LOOP(NAME, KIND)                                                                                           \
    bool GOMP_loop_##NAME##_start(long s, long e, long i, long c, long* is, long* ie)                                  \
    {                                                                                                                  \
        return loop_start(KIND, s, e, i, c, is, ie);                                                                   \
    }                                                                                                                  \
    bool GOMP_loop_##NAME##_next(long* is, long* ie) { return loop_next(is, ie); }                                     \
    void GOMP_parallel_loop_##NAME(void (*fn)(void*), void* data, unsigned nt, long s, long e, long i, long c,         \
                                   unsigned /*flags*/)                                                                 \
    {                                                                                                                  \
        WorkShare w;                                                                                                   \
        w.kind  = KIND;                                                                                                \
        w.next  = s;                                                                                                   \
        w.end   = e;                                                                                                   \
        w.incr  = i;                                                                                                   \
        w.chunk = c < 1 ? 1 : c;                                                                                       \
        run_region(fn, data, nt ? (int)nt : G.icv_nthreads, false, &w);                                                \
    }
SIM_LOOP(dynamic, 0)
SIM_LOOP(guided, 1)
SIM_LOOP(nonmonotonic_dynamic, 0)
SIM_LOOP(nonmonotonic_guided, 1)
#undef SIM_LOOP
// runtime schedules take no chunk argument
#define SIM_LOOP_RT(NAME)                                                                                              \
    bool GOMP_loop_##NAME##_start(long s, long e, long i, long* is, long* ie)                                          \
    {                                                                                                                  \
        return loop_start(0, s, e, i, 1, is, ie);                                                                      \
    }                                                                                                                  \
    bool GOMP_loop_##NAME##_next(long* is, long* ie) { return loop_next(is, ie); }                                     \
    void GOMP_parallel_loop_##NAME(void (*fn)(void*), void* data, unsigned nt, long s, long e, long i,                 \
                                   unsigned /*flags*/)                                                                 \
    {                                                                                                                  \
        WorkShare w;                                                                                                   \
        w.kind  = 0;                                                                                                   \
        w.next  = s;                                                                                                   \
        w.end   = e;                                                                                                   \
        w.incr  = i;                                                                                                   \
        w.chunk = 1;                                                                                                   \
        run_region(fn, data, nt ? (int)nt : G.icv_nthreads, false, &w);                                                \
    }
SIM_LOOP_RT(runtime)
SIM_LOOP_RT(nonmonotonic_runtime)
SIM_LOOP_RT(maybe_nonmonotonic_runtime)
#undef SIM_LOOP_RT
void GOMP_loop_end(void) { loop_end(true); }
void GOMP_loop_end_nowait(void) { loop_end(false); }
bool GOMP_loop_end_cancel(void)
{
    loop_end(true);
    return false;
}

/* single / sections */
bool GOMP_single_start(void)
{
    RtGuard rtg;
    Thread* t = me();
    clock_advance(100);
    if (solo(t))
        return true;
    sched_point(t);
    WorkShare* w = ws_enter(t, 2, 0, 0, 1, 1);
    if (!w->single_taken) {
        w->single_taken = true;
        return true;
    }
    return false;
}
void* GOMP_single_copy_start(void)
{
    RtGuard rtg;
    Thread* t = me();
    if (solo(t))
        return nullptr;
    sched_point(t);
    WorkShare* w = ws_enter(t, 2, 0, 0, 1, 1);
    if (!w->single_taken) {
        w->single_taken = true;
        return nullptr;
    }
    barrier_impl(t);
    void* r = t->team->ws[t->cur_ws].copyprivate;
    barrier_impl(t);
    return r;
}
void GOMP_single_copy_end(void* data)
{
    RtGuard rtg;
    Thread* t = me();
    if (solo(t))
        return;
    t->team->ws[t->cur_ws].copyprivate = data;
    barrier_impl(t);
    barrier_impl(t);
}
unsigned GOMP_sections_start(unsigned count)
{
    RtGuard rtg;
    Thread* t = me();
    if (solo(t)) {
        Thread::InlineWS w{0, 0, 1, 1, 1, (int)count};
        t->inline_ws.push_back(w);
        if (count == 0)
            return 0;
        t->inline_ws.back().sections_next = 2;
        return 1;
    }
    sched_point(t);
    WorkShare* w = ws_enter(t, 3, 0, 0, 1, 1);
    if (w->sections_n == 0)
        w->sections_n = (int)count;
    if (w->sections_next > w->sections_n)
        return 0;
    return (unsigned)w->sections_next++;
}
unsigned GOMP_sections_next(void)
{
    RtGuard rtg;
    Thread* t = me();
    if (solo(t)) {
        if (t->inline_ws.empty())
            return 0;
        Thread::InlineWS& w = t->inline_ws.back();
        if (w.sections_next > w.sections_n)
            return 0;
        return (unsigned)w.sections_next++;
    }
    sched_point(t);
    WorkShare* w = &t->team->ws[t->cur_ws];
    if (w->sections_next > w->sections_n)
        return 0;
    return (unsigned)w->sections_next++;
}
void GOMP_sections_end(void) { loop_end(true); }
void GOMP_sections_end_nowait(void) { loop_end(false); }
void GOMP_parallel_sections(void (*fn)(void*), void* data, unsigned nt, unsigned count, unsigned /*flags*/)
{
    WorkShare w;
    w.kind          = 3;
    w.sections_next = 1;
    w.sections_n    = (int)count;
    run_region(fn, data, nt ? (int)nt : G.icv_nthreads, false, &w);
}

/* critical / atomic / ordered */
void GOMP_critical_start(void) { lock_acquire(g_critical); }
void GOMP_critical_end(void) { lock_release(g_critical); }
void GOMP_critical_name_start(void** pptr) { lock_acquire(g_locks[(void*)pptr]); }
void GOMP_critical_name_end(void** pptr) { lock_release(g_locks[(void*)pptr]); }
void GOMP_atomic_start(void) { lock_acquire(g_atomic); }
void GOMP_atomic_end(void) { lock_release(g_atomic); }
void GOMP_ordered_start(void) {}
void GOMP_ordered_end(void) {}

/* tasks: executed undeferred (one legal schedule; see DESIGN 9.1) */
void GOMP_task(void (*fn)(void*), void* data, void (*cpyfn)(void*, void*), long arg_size, long arg_align,
               bool /*if_clause*/, unsigned /*flags*/, void** /*depend*/, int /*priority*/, void* /*detach*/)
{
    clock_advance(100);
    if (cpyfn) {
        std::vector<char> buf((size_t)arg_size + (size_t)arg_align);
        char* arg = (char*)(((uintptr_t)buf.data() + (uintptr_t)arg_align - 1) & ~((uintptr_t)arg_align - 1));
        cpyfn(arg, data);
        fn(arg);
    }
    else
        fn(data);
}
void GOMP_taskwait(void) {}
void GOMP_taskyield(void) { yield_point(); }
void GOMP_taskgroup_start(void) {}
void GOMP_taskgroup_end(void) {}
void GOMP_taskloop(void (*fn)(void*), void* data, void (*cpyfn)(void*, void*), long arg_size, long arg_align,
                   unsigned /*flags*/, unsigned long /*num_tasks*/, int /*priority*/, long start, long end,
                   long /*step*/)
{
    clock_advance(100);
    std::vector<char> buf((size_t)arg_size + (size_t)arg_align + 16);
    char* arg = (char*)(((uintptr_t)buf.data() + (uintptr_t)arg_align - 1) & ~((uintptr_t)(arg_align ? arg_align : 1) - 1));
    if (cpyfn)
        cpyfn(arg, data);
    else
        memcpy(arg, data, (size_t)arg_size);
    ((long*)arg)[0] = start;
    ((long*)arg)[1] = end;
    fn(arg);
}

/* omp_* API */
int omp_get_thread_num(void)
{
    Thread* t = me();
    return (t->team && t->inline_depth == 0) ? t->tid : 0;
}
int omp_get_num_threads(void)
{
    Thread* t = me();
    return (t->team && t->inline_depth == 0) ? t->team->n : 1;
}
int omp_get_max_threads(void) { return G.icv_nthreads; }
void omp_set_num_threads(int n)
{
    Thread* t = me();
    if (t->team || t->inline_depth > 0)
        return; // inside a region the ICV is task-local; nested regions are serialised anyway
    if (n > 0)
        G.icv_nthreads = n;
    clock_advance(100);
}
int omp_get_num_procs(void) { return 16; }
int omp_in_parallel(void) { return sim::in_parallel() ? 1 : 0; }
void omp_set_dynamic(int d) { G.dyn = d != 0; }
int omp_get_dynamic(void) { return G.dyn ? 1 : 0; }
void omp_set_nested(int) {}
int omp_get_nested(void) { return 0; }
void omp_set_max_active_levels(int) {}
int omp_get_max_active_levels(void) { return 1; }
int omp_get_level(void)
{
    Thread* t = me();
    return (t->team ? 1 : 0) + t->inline_depth;
}
int omp_get_active_level(void) { return me()->team ? 1 : 0; }
int omp_get_thread_limit(void) { return G.cfg.thread_limit; }
double omp_get_wtime(void)
{
    clock_advance(100);
    return (double)G.clock_ns * 1e-9;
}
double omp_get_wtick(void) { return 1e-9; }
int omp_get_cancellation(void) { return 0; }

typedef struct {
    unsigned char x[4];
} sim_omp_lock_t;
void omp_init_lock(void* l) { g_locks[l] = SimLock(); }
void omp_destroy_lock(void* l) { g_locks.erase(l); }
void omp_set_lock(void* l) { lock_acquire(g_locks[l]); }
void omp_unset_lock(void* l) { lock_release(g_locks[l]); }
int omp_test_lock(void* l)
{
    SimLock& L = g_locks[l];
    sched_point(me());
    if (L.owner)
        return 0;
    lock_acquire(L);
    return 1;
}
void omp_init_nest_lock(void* l) { g_locks[l] = SimLock(); }
void omp_destroy_nest_lock(void* l) { g_locks.erase(l); }

} // extern "C"
