// Internal shared state between simgomp.cpp (runtime + scheduler) and simtrace.cpp (access callbacks + HB monitor).
#pragma once
#include "sim.h"
#include "prng.h"
#include <pthread.h>
#include <semaphore.h>
#include <deque>
#include <vector>

namespace sim {

enum ThState
{
    TS_IDLE = 0,
    TS_RUNNABLE,
    TS_BARRIER,
    TS_JOIN,
    TS_LOCK,
    TS_DONE
};

struct Team;

struct Thread {
    int pool_id = 0;
    pthread_t pt{};
    sem_t sem;
    Team* team       = nullptr;
    int tid          = 0;
    int state        = TS_IDLE;
    int inline_depth = 0; // >0: inside a nested / serialised region (team of one)
    long prio        = 0; // POL_PCT
    uint64_t ws_seq  = 0;
    long cur_ws      = -1;
    void* waiting_lock = nullptr;
    std::vector<uint32_t> vc; // vector clock, size team->n
    bool quit = false;
    // inline (team-of-one) work-share state
    struct InlineWS {
        long next, end, incr, chunk;
        int sections_next, sections_n;
    };
    std::vector<InlineWS> inline_ws;
};

struct WorkShare {
    int kind = 0; // 0 loop dynamic, 1 guided, 2 single, 3 sections, 4 static
    long next = 0, end = 0, incr = 1, chunk = 1;
    bool single_taken = false;
    int sections_next = 1, sections_n = 0;
    void* copyprivate = nullptr;
    std::vector<long> static_next; // per thread for static chunked
};

struct SimLock {
    Thread* owner = nullptr;
    std::vector<uint32_t> vc;
};

struct Team {
    int n = 1;
    std::vector<Thread*> th;
    void (*fn)(void*) = nullptr;
    void* data        = nullptr;
    int arrived       = 0;
    int done          = 0;
    uint64_t steps    = 0;
    uint64_t region_id = 0;
    uint64_t barrier_gen = 0;
    std::deque<WorkShare> ws;
    Thread* running = nullptr;
    // PCT
    std::vector<uint64_t> pct_points;
    size_t pct_next = 0;
    long pct_low    = 0;
};

struct Global {
    Config cfg;
    Stats st;
    Rng sched{1};
    uint64_t fp      = FNV_INIT;
    Team* active     = nullptr; // the (single) active multi-thread team
    int icv_nthreads = 1;
    bool dyn         = false;
    uint64_t region_counter = 0;
    std::vector<RaceReport> races;
    // preemption countdown for access-granular policies
    int64_t preempt_countdown = -1;
    // simulated clock
    uint64_t clock_ns   = 1700000000ull * 1000000000ull;
    bool clock_frozen   = false;
    bool running        = false; // between begin_run/end_run
    bool trace_seen     = false;
    uint64_t epoch      = 1; // shadow epoch
};

extern Global G;
extern thread_local Thread* tl_me;
extern thread_local int tl_rt; // >0 while this thread executes simulator code (its own memcpy etc. must not be traced)
struct RtGuard {
    RtGuard() { tl_rt++; }
    ~RtGuard() { tl_rt--; }
};
Thread* me();

// scheduler entry points (simgomp.cpp)
void sched_point(Thread* t); // may switch to another runnable thread of the active team
void atomic_sync(Thread* t, uintptr_t addr); // acquire+release on a sync variable
void monitor_epoch_clear(); // shadow reset (barrier release / region start / end)
void monitor_free_range(uintptr_t addr, size_t n);
void monitor_region_begin(Team* tm);
void monitor_drop_sync();

inline bool monitoring() { return G.active != nullptr; }

} // namespace sim
