// Environment seams: clock, allocator faults / poison, file-system faults.  See DESIGN.md section 2.3.
#pragma once
#include <cstdint>
#include <cstddef>
#include <string>

namespace sim {

double real_seconds(); // un-simulated monotonic clock, for budgets and evidence only
uint64_t clock_reads();

struct AllocFaults {
    long count      = 0; // allocations seen
    long fail_at    = 0; // the fail_at-th allocation from now throws bad_alloc (0 = off)
    bool armed      = false;
    long fired      = 0;
    bool poison     = false; // pre-fill fresh memory with pattern
    uint64_t pattern = 0;
};
AllocFaults& alloc_faults();
__attribute__((noinline)) void poison_stack(uint64_t pattern, size_t bytes);

struct FsFaults {
    bool active = false;
    std::string scratch; // only paths with this prefix are affected
    // counters of operations seen (reset by fs_reset)
    int opens          = 0;
    long total_writes  = 0;
    long total_reads   = 0;
    // faults (index = ordinal of the call among tracked calls since fs_reset; -1 = off)
    int open_fail_index   = -1;
    int open_errno        = 2;
    long write_fail_at    = -1; // this and every later write fails
    int write_errno       = 28;
    long short_write_at   = -1;
    long short_write_bytes = 1;
    long crash_after_write = -1; // write #k is the last durable one; later writes are silently lost
    long torn_bytes        = -1; // with crash_after_write: only this many bytes of write #k are durable
    bool crashed           = false;
    long read_fail_at      = -1;
    long short_read_bytes  = 0;
    // fired counters
    long fired_open_fail = 0, fired_write_fail = 0, fired_short_write = 0, fired_crash = 0, fired_dropped = 0,
         fired_read_fail = 0, fired_short_read = 0;
};
FsFaults& fs();
void fs_reset(const std::string& scratch);

} // namespace sim
