// Public interface of the deterministic OpenMP simulator ("simgomp") and its
// happens-before monitor ("simtrace").  See DESIGN.md section 2.
#pragma once
#include <cstdint>
#include <cstddef>
#include <functional>
#include <map>
#include <string>
#include <vector>

namespace sim {

enum Policy
{
    POL_NONE   = 0, // switch only at synchronisation points, random choice there
    POL_RR     = 1, // canonical: lowest runnable tid first at every synchronisation point (reference schedule)
    POL_RANDOM = 2, // additionally preempt after instrumented accesses with probability preempt_p
    POL_PCT    = 3, // random priorities with pct_depth priority change points
    POL_STARVE = 4 // one thread is never scheduled while another is runnable
};

struct Config {
    uint64_t sched_seed  = 1;
    int policy           = POL_NONE;
    double preempt_p     = 0.0; // POL_RANDOM
    int pct_depth        = 2; // POL_PCT
    int starve_tid       = 1; // POL_STARVE
    double shortfall_p   = 0.0; // probability that a region gets fewer threads than requested
    double clock_jump_p  = 0.0; // probability per region of a clock jump (forwards or backwards) / freeze toggle
    bool monitor         = true; // happens-before race monitor (only effective in the trace build)
    uint64_t step_budget = 600000000ull; // per region: scheduling points + accesses before "stall"
    int thread_limit     = 256;
};

struct RaceReport {
    uintptr_t addr;
    int size_a, size_b;
    bool write_a, write_b;
    int tid_a, tid_b;
    void* pc_a; // earlier access
    void* pc_b; // later access
    void* region_fn;
    long alloc_id;
    long alloc_off;
    int team;
};

struct RegionStat {
    uint64_t count = 0, parallel = 0;
    int max_team = 0, max_req = 0;
    uint64_t shortfalls = 0;
};

struct Stats {
    uint64_t regions = 0, par_regions = 0, switches = 0, sched_points = 0, barriers = 0, accesses = 0;
    uint64_t shortfalls = 0, atomics = 0, nested = 0, preemptions = 0, checked = 0, clock_faults = 0;
    uint64_t team_hist[9] = {0}; // 1,2,3,4,5-8,9-16,17-32,33-64,65+
    int max_team         = 0;
    uint64_t sim_time_ns = 0;
    std::map<void*, RegionStat> by_fn;
    uint64_t sched_fp = FNV0; // fingerprint of the interleaving only
    static constexpr uint64_t FNV0 = 0xCBF29CE484222325ull;
};

void begin_run(const Config& cfg);
void end_run();
const Config& config();
Stats& stats();
std::vector<RaceReport>& races();
uint64_t fingerprint(); // event log + mixed observables
void fp_mix(const void* p, size_t n);
void fp_mix_u64(uint64_t v);
bool trace_build(); // true when the access callbacks are linked and were seen at least once / compiled in
bool in_parallel();
bool in_any_region(); // true inside any parallel construct, including serialised (team of one) regions

// Run n simulated caller threads (tid 0 = calling thread) under the scheduler and monitor.
void run_callers(int n, const std::function<void(int)>& body);

// Extra explicit yield point usable by the harness between API calls of caller threads.
void yield_point();

// verdict helpers: deadlock/stall end the process with a classified line; the driver picks it up.
[[noreturn]] void fatal_verdict(const char* cls, const std::string& detail, int exit_code);

// simulated clock (ns)
uint64_t now_ns();
void clock_advance(uint64_t ns);
void clock_fault_jump(int64_t ns);
void clock_fault_freeze(bool on);

} // namespace sim
