// simenv: link-time seams for the environment: clock, operator new/delete (ids, failure, poison), libc file I/O.
// All of them are defined in the executable, so they take precedence over libc / libstdc++ for every caller.
#include "sim_internal.h"
#include "simenv.h"
#include <cerrno>
#include <cstdarg>
#include <cstdio>
#include <cstdlib>
#include <cstring>
#include <dlfcn.h>
#include <fcntl.h>
#include <malloc.h>
#include <new>
#include <string>
#include <sys/syscall.h>
#include <sys/uio.h>
#include <time.h>
#include <unistd.h>

namespace sim {
void note_alloc(void* p, size_t n);

/* ------------------------------------------------------------------ */
/* clock                                                              */
/* ------------------------------------------------------------------ */
double real_seconds()
{
    struct timespec ts;
    syscall(SYS_clock_gettime, CLOCK_MONOTONIC, &ts);
    return (double)ts.tv_sec + 1e-9 * (double)ts.tv_nsec;
}
static uint64_t g_clock_reads = 0;
uint64_t clock_reads() { return g_clock_reads; }

/* ------------------------------------------------------------------ */
/* allocator                                                          */
/* ------------------------------------------------------------------ */
static AllocFaults g_af;
AllocFaults& alloc_faults() { return g_af; }

static inline void fill_pattern(void* p, size_t n, uint64_t pat)
{
    unsigned char* c = (unsigned char*)p;
    size_t i         = 0;
    for (; i + 8 <= n; i += 8)
        memcpy(c + i, &pat, 8);
    for (; i < n; i++)
        c[i] = (unsigned char)(pat >> (8 * (i & 7)));
}

void* sim_new(size_t n, bool nothrow)
{
    const bool internal = tl_rt > 0; // the simulator's own bookkeeping is never counted nor failed
    if (!internal)
        g_af.count++;
    if (!internal && g_af.fail_at > 0 && g_af.armed && !sim::in_any_region()) { // an exception may not leave a parallel construct
        if (--g_af.fail_at == 0) {
            g_af.fired++;
            g_af.armed = false;
            if (nothrow)
                return nullptr;
            throw std::bad_alloc();
        }
    }
    if (n == 0)
        n = 1;
    void* p = malloc(n);
    if (!p) {
        if (nothrow)
            return nullptr;
        throw std::bad_alloc();
    }
    if (g_af.poison)
        fill_pattern(p, n, g_af.pattern);
#ifdef SIM_TRACE
    note_alloc(p, n);
#endif
    return p;
}
void sim_delete(void* p)
{
    if (!p)
        return;
#ifdef SIM_TRACE
    if (G.active)
        monitor_free_range((uintptr_t)p, malloc_usable_size(p));
#endif
    if (g_af.poison)
        fill_pattern(p, malloc_usable_size(p), 0xDDDDDDDDDDDDDDDDull);
    free(p);
}

__attribute__((noinline)) void poison_stack(uint64_t pattern, size_t bytes)
{
    volatile unsigned char* buf = (volatile unsigned char*)alloca(bytes);
    for (size_t i = 0; i < bytes; i++)
        buf[i] = (unsigned char)(pattern >> (8 * (i & 7)));
    asm volatile("" ::"r"(buf) : "memory");
}

} // namespace sim

#ifndef SIM_NO_NEW_INTERPOSE
void* operator new(size_t n) { return sim::sim_new(n, false); }
void* operator new[](size_t n) { return sim::sim_new(n, false); }
void* operator new(size_t n, const std::nothrow_t&) noexcept { return sim::sim_new(n, true); }
void* operator new[](size_t n, const std::nothrow_t&) noexcept { return sim::sim_new(n, true); }
void operator delete(void* p) noexcept { sim::sim_delete(p); }
void operator delete[](void* p) noexcept { sim::sim_delete(p); }
void operator delete(void* p, size_t) noexcept { sim::sim_delete(p); }
void operator delete[](void* p, size_t) noexcept { sim::sim_delete(p); }
void* operator new(size_t n, std::align_val_t al)
{
    void* p = nullptr;
    if (posix_memalign(&p, (size_t)al < sizeof(void*) ? sizeof(void*) : (size_t)al, n ? n : 1) != 0)
        throw std::bad_alloc();
    return p;
}
void* operator new[](size_t n, std::align_val_t al) { return operator new(n, al); }
void operator delete(void* p, std::align_val_t) noexcept { free(p); }
void operator delete[](void* p, std::align_val_t) noexcept { free(p); }
void operator delete(void* p, size_t, std::align_val_t) noexcept { free(p); }
void operator delete[](void* p, size_t, std::align_val_t) noexcept { free(p); }
#endif

extern "C" {

int clock_gettime(clockid_t id, struct timespec* ts)
{
    if (sim::G.running && (id == CLOCK_REALTIME || id == CLOCK_MONOTONIC)) {
        sim::g_clock_reads++;
        sim::clock_advance(50);
        uint64_t t  = sim::G.clock_ns;
        ts->tv_sec  = (time_t)(t / 1000000000ull);
        ts->tv_nsec = (long)(t % 1000000000ull);
        return 0;
    }
    return (int)syscall(SYS_clock_gettime, id, ts);
}
int gettimeofday(struct timeval* tv, void*)
{
    struct timespec ts;
    clock_gettime(CLOCK_REALTIME, &ts);
    if (tv) {
        tv->tv_sec  = ts.tv_sec;
        tv->tv_usec = ts.tv_nsec / 1000;
    }
    return 0;
}

} // extern "C"

/* ====================================================================== */
/* simfs: fault injection on libc file I/O under the scratch directory    */
/* ====================================================================== */
namespace sim {

static FsFaults g_fs;
FsFaults& fs() { return g_fs; }

struct FdState {
    bool tracked = false;
    int file_id  = -1; // index into g_fs.files (by open order within an operation)
    bool writing = false;
    long writes  = 0;
    long reads   = 0;
};
static FdState g_fd[1024];

static bool under_scratch(const char* path)
{
    return g_fs.active && !g_fs.scratch.empty() && path && strncmp(path, g_fs.scratch.c_str(), g_fs.scratch.size()) == 0;
}

typedef int (*open_fn)(const char*, int, ...);
typedef ssize_t (*write_fn)(int, const void*, size_t);
typedef ssize_t (*writev_fn)(int, const struct iovec*, int);
typedef ssize_t (*read_fn)(int, void*, size_t);
typedef int (*close_fn)(int);

template <class F>
static F real(const char* name)
{
    static thread_local int depth = 0;
    (void)depth;
    return (F)dlsym(RTLD_NEXT, name);
}

static int do_open(const char* path, int flags, mode_t mode, const char* sym)
{
    static open_fn ro = nullptr, ro64 = nullptr;
    if (!ro)
        ro = real<open_fn>("open");
    if (!ro64)
        ro64 = real<open_fn>("open64");
    open_fn f = (strcmp(sym, "open64") == 0) ? ro64 : ro;
    if (under_scratch(path)) {
        bool wr = (flags & O_ACCMODE) != O_RDONLY;
        clock_advance(10000);
        int fid = g_fs.opens++;
        if (g_fs.open_fail_index == fid) {
            g_fs.fired_open_fail++;
            errno = g_fs.open_errno;
            return -1;
        }
        int fd = f(path, flags, mode);
        if (fd >= 0 && fd < 1024) {
            g_fd[fd]         = FdState();
            g_fd[fd].tracked = true;
            g_fd[fd].file_id = fid;
            g_fd[fd].writing = wr;
        }
        return fd;
    }
    return f(path, flags, mode);
}

static ssize_t do_write(int fd, const void* buf, size_t n)
{
    static write_fn rw = nullptr;
    if (!rw)
        rw = real<write_fn>("write");
    if (fd >= 0 && fd < 1024 && g_fd[fd].tracked && g_fs.active) {
        FdState& s = g_fd[fd];
        long idx   = g_fs.total_writes++;
        s.writes++;
        clock_advance(10000);
        if (g_fs.crashed) { // after a simulated crash nothing reaches the disk, the program does not know
            g_fs.fired_dropped++;
            return (ssize_t)n;
        }
        if (g_fs.crash_after_write >= 0 && idx == g_fs.crash_after_write) {
            // this write is the last one that is durable, possibly torn
            g_fs.crashed = true;
            g_fs.fired_crash++;
            size_t keep = n;
            if (g_fs.torn_bytes >= 0 && (size_t)g_fs.torn_bytes < n)
                keep = (size_t)g_fs.torn_bytes;
            if (keep > 0)
                rw(fd, buf, keep);
            return (ssize_t)n;
        }
        if (g_fs.write_fail_at >= 0 && idx >= g_fs.write_fail_at) {
            g_fs.fired_write_fail++;
            errno = g_fs.write_errno;
            return -1;
        }
        if (g_fs.short_write_at >= 0 && idx == g_fs.short_write_at && n > 1) {
            g_fs.fired_short_write++;
            size_t k = (size_t)g_fs.short_write_bytes;
            if (k >= n)
                k = n - 1;
            if (k == 0)
                k = 1;
            return rw(fd, buf, k); // a legal short write: the caller must continue
        }
    }
    return rw(fd, buf, n);
}

static ssize_t do_read(int fd, void* buf, size_t n)
{
    static read_fn rr = nullptr;
    if (!rr)
        rr = real<read_fn>("read");
    if (fd >= 0 && fd < 1024 && g_fd[fd].tracked && g_fs.active) {
        long idx = g_fs.total_reads++;
        clock_advance(10000);
        if (g_fs.read_fail_at >= 0 && idx >= g_fs.read_fail_at) {
            g_fs.fired_read_fail++;
            errno = EIO;
            return -1;
        }
        if (g_fs.short_read_bytes > 0 && n > (size_t)g_fs.short_read_bytes) {
            g_fs.fired_short_read++;
            n = (size_t)g_fs.short_read_bytes;
        }
    }
    return rr(fd, buf, n);
}

FILE* do_fopen(const char* path, const char* mode, void* realfn)
{
    typedef FILE* (*fopen_fn)(const char*, const char*);
    fopen_fn rf = (fopen_fn)realfn;
    if (under_scratch(path)) {
        clock_advance(10000);
        int fid = g_fs.opens++;
        if (g_fs.open_fail_index == fid) {
            g_fs.fired_open_fail++;
            errno = g_fs.open_errno;
            return nullptr;
        }
        FILE* f = rf(path, mode);
        if (f) {
            int fd = fileno(f);
            if (fd >= 0 && fd < 1024) {
                g_fd[fd]         = FdState();
                g_fd[fd].tracked = true;
                g_fd[fd].file_id = fid;
                g_fd[fd].writing = mode && (mode[0] == 'w' || mode[0] == 'a' || strchr(mode, '+'));
            }
        }
        return f;
    }
    return rf(path, mode);
}

void fs_reset(const std::string& scratch)
{
    g_fs         = FsFaults();
    g_fs.scratch = scratch;
    for (auto& s : g_fd)
        s = FdState();
}

} // namespace sim

extern "C" {
int open(const char* path, int flags, ...)
{
    mode_t mode = 0;
    if (flags & (O_CREAT | O_TMPFILE)) {
        va_list ap;
        va_start(ap, flags);
        mode = (mode_t)va_arg(ap, int);
        va_end(ap);
    }
    return sim::do_open(path, flags, mode, "open");
}
int open64(const char* path, int flags, ...)
{
    mode_t mode = 0;
    if (flags & (O_CREAT | O_TMPFILE)) {
        va_list ap;
        va_start(ap, flags);
        mode = (mode_t)va_arg(ap, int);
        va_end(ap);
    }
    return sim::do_open(path, flags, mode, "open64");
}
ssize_t write(int fd, const void* buf, size_t n) { return sim::do_write(fd, buf, n); }
ssize_t writev(int fd, const struct iovec* iov, int cnt)
{
    // libstdc++ uses writev for "buffer + new data"; serve it through write() so that every fault applies
    ssize_t total = 0;
    for (int i = 0; i < cnt; i++) {
        if (iov[i].iov_len == 0)
            continue;
        ssize_t r = sim::do_write(fd, iov[i].iov_base, iov[i].iov_len);
        if (r < 0)
            return total > 0 ? total : r;
        total += r;
        if ((size_t)r < iov[i].iov_len)
            break;
    }
    return total;
}
ssize_t read(int fd, void* buf, size_t n) { return sim::do_read(fd, buf, n); }
FILE* fopen(const char* path, const char* mode)
{
    typedef FILE* (*fopen_fn)(const char*, const char*);
    static fopen_fn rf = nullptr;
    if (!rf)
        rf = sim::real<fopen_fn>("fopen");
    return sim::do_fopen(path, mode, (void*)rf);
}
FILE* fopen64(const char* path, const char* mode)
{
    typedef FILE* (*fopen_fn)(const char*, const char*);
    static fopen_fn rf = nullptr;
    if (!rf)
        rf = sim::real<fopen_fn>("fopen64");
    return sim::do_fopen(path, mode, (void*)rf);
}
int fclose(FILE* f)
{
    typedef int (*fclose_fn)(FILE*);
    static fclose_fn rf = nullptr;
    if (!rf)
        rf = sim::real<fclose_fn>("fclose");
    if (f) {
        int fd = fileno(f);
        if (fd >= 0 && fd < 1024)
            sim::g_fd[fd] = sim::FdState();
    }
    return rf(f);
}
int close(int fd)
{
    static sim::close_fn rc = nullptr;
    if (!rc)
        rc = sim::real<sim::close_fn>("close");
    if (fd >= 0 && fd < 1024)
        sim::g_fd[fd] = sim::FdState();
    return rc(fd);
}
}
